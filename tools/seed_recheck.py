#!/venv/bin/python
"""Re-run the quick check(s) of every stored seeded change against a scratch copy of the current /repo with the change applied.
Prints one line per seeded change; exit 1 if any is no longer detected (or no longer applies).

  tools/seed_recheck.py [name-prefix ...]    (4 at a time)
"""
import json
import os
import shutil
import subprocess
import sys
import tempfile
from concurrent.futures import ThreadPoolExecutor

VERIF = os.path.dirname(os.path.dirname(os.path.abspath(__file__)))


def one(name):
    d = os.path.join(VERIF, 'seeded', name)
    meta = json.load(open(os.path.join(d, 'meta.json')))
    if meta.get('obsolete'):
        return name, 'detected', {'obsolete': 'no longer breaks the property on the current tree'}
    checks = meta.get('detected_by') or [meta['property']]
    scratch = tempfile.mkdtemp(prefix='recheck-', dir='/tmp')
    dst = os.path.join(scratch, 'repo')
    try:
        shutil.copytree('/repo', dst, ignore=shutil.ignore_patterns('.git', '__pycache__', '*.pyc', '.hypothesis', '.benchmarks'))
        r = subprocess.run(['git', 'apply', '--directory', dst.lstrip('/'), '--unsafe-paths', os.path.join(d, 'patch.diff')], cwd='/',
                           capture_output=True, text=True)
        if r.returncode:
            r = subprocess.run(['patch', '-p1', '-s', '-d', dst, '-i', os.path.join(d, 'patch.diff')], capture_output=True, text=True)
            if r.returncode:
                return name, 'PATCH-DOES-NOT-APPLY', {}
        res = {}
        for c in checks:
            env = dict(os.environ, VERIF_REPO=dst, VERIF_NO_EVIDENCE='1')
            rr = subprocess.run([os.path.join(VERIF, 'check'), c, '--tier', 'quick'], env=env, capture_output=True, text=True)
            res[c] = rr.returncode
        ok = all(v == 1 for v in res.values())
        return name, 'detected' if ok else 'MISSED', res
    finally:
        shutil.rmtree(scratch, ignore_errors=True)


def main():
    names = sorted(n for n in os.listdir(os.path.join(VERIF, 'seeded')) if os.path.exists(os.path.join(VERIF, 'seeded', n, 'meta.json')))
    if sys.argv[1:]:
        names = [n for n in names if any(n.startswith(p) for p in sys.argv[1:])]
    bad = 0
    with ThreadPoolExecutor(4) as ex:
        for name, verdict, res in ex.map(one, names):
            print('%-45s %s %s' % (name, verdict, res), flush=True)
            bad += verdict != 'detected'
    return 1 if bad else 0


if __name__ == '__main__':
    sys.exit(main())
