#!/bin/bash
# The sandbox lacks pkg_resources, so 14 of the repository's test files (among them the CLI integration tests) cannot be
# collected by the pinned baseline command.  This runs the WHOLE upstream suite (2616 tests) on a scratch copy of /repo's
# working tree with a three-line pkg_resources stand-in on PYTHONPATH and the copy's bin/ on PATH.  Used to validate the
# "fix:" commits beyond the pinned 2096 tests.
set -e
d=$(mktemp -d /tmp/fullsuite-XXXX)
rsync -a --exclude .git --exclude .hypothesis/examples --exclude __pycache__ /repo/ $d/repo/
mkdir -p $d/shim/pkg_resources
cat > $d/shim/pkg_resources/__init__.py <<'PY'
import importlib, os
def resource_filename(pkg, name):
    return os.path.join(os.path.dirname(importlib.import_module(pkg).__file__), name)
PY
cd $d/repo
PATH=$d/repo/bin:$PATH PYTHONPATH=$d/repo:$d/shim env -u VERMOUTH_VERIF /venv/bin/python -m pytest -q -rf -p no:cacheprovider -n ${N:-8} --timeout=900 "$@" vermouth 2>&1 | grep -a "^FAILED\|passed\|failed" | tail -${TAIL:-5}
cd /; rm -rf $d
