#!/bin/bash
# Regenerate every evidence file from /verif's own quick checks against /repo, then MANIFEST.json, then validate both
# against the schemas.  Run from /verif before committing the final state.
cd "$(dirname "$0")/.."
rc=0
for i in 01 02 03 04 05 06 07 08 09 10 11 12 13 14 15 16 17 18 19; do
  ./check C$i --tier quick 2>&1 | grep -v WARN | grep "^C$i\|VIOLATION\|INCONCLUSIVE\|KNOWN-FINDING" | cut -c1-200
  [ ${PIPESTATUS[0]} -ne 0 ] && rc=1
done
/venv/bin/python tools/gen_manifest.py | tail -1
python3-vt tools/validate.py | tail -3
tools/gen_design_table.py | tail -1
exit $rc
