#!/opt/veriftools/pyvenv/bin/python
import json, sys, glob, jsonschema
m = json.load(open('/verif/MANIFEST.json'))
jsonschema.validate(m, json.load(open('/root/.vp/MANIFEST.schema.json')))
es = json.load(open('/root/.vp/EVIDENCE.schema.json'))
bad = 0
for c in m['checks']:
    p = '/verif/' + c['evidence_file']
    try:
        e = json.load(open(p)); jsonschema.validate(e, es)
        assert e['level'] == c['level_claimed']['category'], 'level mismatch'
        print('ok', p, e['tier'], e['coverage']['evaluations'], e['coverage']['distinct_nontrivial'], e['wall_s'])
    except Exception as ex:
        bad += 1; print('BAD', p, str(ex)[:300])
ids = {c['property_id'] for c in m['checks']} | {n['property_id'] for n in m.get('not_applicable', [])}
print('manifest ok; covered ids', len(ids))
sys.exit(1 if bad else 0)
