#!/venv/bin/python
"""Mutation trial: copy the repository to a scratch directory, apply one textual replacement
(or a patch file), run a check against the copy, report, delete the copy.

  tools/muttrial.py C08 vermouth/log_helpers.py 'max(0, min(count' 'min(0, max(count'
  tools/muttrial.py C08 --patch some.diff

Evidence files are NOT touched (VERIF_NO_EVIDENCE=1). Exit status: 0 if the check fired (exit 1), 1 otherwise.
"""
import os
import shutil
import subprocess
import sys
import tempfile


def main():
    args = sys.argv[1:]
    prop = args.pop(0)
    tier = 'quick'
    if args and args[0] == '--thorough':
        tier = 'thorough'
        args.pop(0)
    scratch = tempfile.mkdtemp(prefix='mut-%s-' % prop, dir='/tmp')
    dst = os.path.join(scratch, 'repo')
    try:
        shutil.copytree('/repo', dst, ignore=shutil.ignore_patterns('.git', '__pycache__', '*.pyc', '.hypothesis', '.benchmarks'))
        label = ' '.join(a.strip()[:50].replace('\n', ' ') for a in args[:3])
        if args[0] == '--patch':
            r = subprocess.run(['patch', '-p1', '-d', dst, '-i', os.path.abspath(args[1])], capture_output=True, text=True)
            if r.returncode:
                print('PATCH FAILED', r.stdout, r.stderr)
                return 3
        else:
            while args:
                path, old, new = args[:3]
                args = args[3:]
                full = os.path.join(dst, path)
                text = open(full).read()
                if text.count(old) < 1:
                    print('PATTERN NOT FOUND in', path, repr(old))
                    return 3
                text = text.replace(old, new, 1)
                open(full, 'w').write(text)
        env = dict(os.environ, VERIF_REPO=dst, VERIF_NO_EVIDENCE='1')
        r = subprocess.run(['/verif/check', prop, '--tier', tier], env=env, capture_output=True, text=True)
        lines = [l for l in r.stdout.splitlines() if l.startswith(('VIOLATION', 'INCONCLUSIVE', 'KNOWN', prop))]
        print('exit=%d  [%s]' % (r.returncode, label))
        print('\n'.join(l[:400] for l in lines[:6]))
        if r.returncode not in (0, 1, 2):
            print(r.stderr[-2000:])
        return 0 if r.returncode == 1 else 1
    finally:
        shutil.rmtree(scratch, ignore_errors=True)


if __name__ == '__main__':
    sys.exit(main())
