#!/venv/bin/python
"""Confirm and evaluate a seeded property-breaking change produced by a sub-agent.

  tools/seed_eval.py <prop> <name> <patch.diff> <demo.py> [--needs "..."] [--desc "..."] [--checks C01,C09]

Steps (all on a scratch copy of /repo's CURRENT tree, under /tmp, removed afterwards):
  1. demo on the unchanged copy must exit 0
  2. apply the patch; demo must exit non-zero
  3. the repository's test suite on the patched copy must still give the baseline number of passes, no failures
  4. run the quick check(s) against the patched copy and record whether they fire
The patch is re-diffed against the current /repo tree so that `git -C /repo apply` works, and stored with the demo
and meta.json under /verif/seeded/<name>/.
"""
import argparse
import json
import os
import re
import shutil
import subprocess
import sys
import tempfile

VERIF = os.path.dirname(os.path.dirname(os.path.abspath(__file__)))


def sh(cmd, **kw):
    return subprocess.run(cmd, capture_output=True, text=True, **kw)


def main():
    ap = argparse.ArgumentParser()
    ap.add_argument('prop')
    ap.add_argument('name')
    ap.add_argument('patch')
    ap.add_argument('demo')
    ap.add_argument('--needs', default='')
    ap.add_argument('--desc', default='')
    ap.add_argument('--checks', default='')
    ap.add_argument('--tier', default='quick')
    ap.add_argument('--skip-tests', action='store_true')
    a = ap.parse_args()
    checks = a.checks.split(',') if a.checks else [a.prop]
    scratch = tempfile.mkdtemp(prefix='seed-%s-' % a.name, dir='/tmp')
    dst = os.path.join(scratch, 'repo')
    meta = {'property': a.prop, 'name': a.name, 'needs_to_manifest': a.needs, 'description': a.desc, 'ran': []}
    old_meta = os.path.join(HERE if 'HERE' in globals() else os.path.dirname(os.path.dirname(os.path.abspath(__file__))), 'seeded', a.name, 'meta.json')
    if os.path.exists(old_meta):
        # a re-evaluation without --needs / --desc keeps what was recorded before
        with open(old_meta) as f:
            om = json.load(f)
        meta['needs_to_manifest'] = a.needs or om.get('needs_to_manifest')
        meta['description'] = a.desc or om.get('description')
    try:
        shutil.copytree('/repo', dst, ignore=shutil.ignore_patterns('.git', '__pycache__', '*.pyc', '.hypothesis', '.benchmarks'))
        orig = os.path.join(scratch, 'orig')
        shutil.copytree(dst, orig)
        demo = os.path.join(dst, os.path.basename(a.demo))
        shutil.copy(a.demo, demo)
        env = dict(os.environ, PYTHONPATH=dst, PYTHONDONTWRITEBYTECODE='1', PYTHONWARNINGS='ignore')
        r = sh(['/venv/bin/python', demo], cwd=dst, env=env, timeout=1800)
        meta['ran'].append({'cmd': 'demo on unchanged tree', 'exit': r.returncode, 'tail': r.stdout[-300:]})
        print('demo on unchanged: exit', r.returncode, r.stdout[-200:].strip().replace('\n', ' | '))
        ok = r.returncode == 0
        r = sh(['patch', '-p1', '--no-backup-if-mismatch', '-d', dst, '-i', os.path.abspath(a.patch)])
        if r.returncode:
            print('PATCH DOES NOT APPLY to current /repo:', r.stdout[-600:], r.stderr[-300:])
            return 3
        r = sh(['/venv/bin/python', demo], cwd=dst, env=env, timeout=1800)
        meta['ran'].append({'cmd': 'demo on changed tree', 'exit': r.returncode, 'tail': r.stdout[-600:]})
        print('demo on changed  : exit', r.returncode, r.stdout[-300:].strip().replace('\n', ' | '))
        ok = ok and r.returncode != 0
        os.remove(demo)
        if not a.skip_tests:
            # test_logging.py / test_ismags.py contain hypothesis tests that are flaky under load (random draws, deadlines);
            # a failure is only believed if it repeats on a clean .hypothesis directory
            tails = []
            good = False
            for attempt in range(3):
                shutil.rmtree(os.path.join(dst, '.hypothesis'), ignore_errors=True)
                r = sh(['/venv/bin/python', '-m', 'pytest', '-q', '-p', 'no:cacheprovider', '-n', '8', '--timeout=900',
                        '--continue-on-collection-errors', 'vermouth'], cwd=dst, env=env, timeout=3000)
                tail = r.stdout.strip().splitlines()[-1] if r.stdout.strip() else ''
                failed = [l for l in r.stdout.splitlines() if l.startswith('FAILED')]
                tails.append({'tail': tail, 'failed': failed[:5]})
                m = re.search(r'(\d+) passed', tail)
                if m and int(m.group(1)) == 2096 and not re.search(r'\b\d+ failed', tail):
                    good = True
                    break
            meta['ran'].append({'cmd': 'pytest (baseline command, -n 8) on changed tree, up to 3 attempts', 'attempts': tails})
            print('pytest on changed:', tails[-1]['tail'], '(attempt %d)' % len(tails), tails[-1]['failed'])
            ok = ok and good
        # re-diff against the current tree
        # re-diff against the current tree with git (handles CRLF files); paths rewritten to a/ b/
        for junk in ('.hypothesis', '.benchmarks'):
            shutil.rmtree(os.path.join(dst, junk), ignore_errors=True)
            shutil.rmtree(os.path.join(orig, junk), ignore_errors=True)
        for root, dirs, files in os.walk(dst):
            for d in [d for d in dirs if d == '__pycache__']:
                shutil.rmtree(os.path.join(root, d), ignore_errors=True)
            for f in files:
                if f.endswith(('.orig', '.rej')):
                    os.remove(os.path.join(root, f))
        r = subprocess.run(['git', 'diff', '--no-index', '--binary', 'orig', 'repo'], cwd=scratch, capture_output=True)
        diff = r.stdout.replace(b'a/orig/', b'a/').replace(b'b/repo/', b'b/')
        fired = {}
        for c in checks:
            env2 = dict(os.environ, VERIF_REPO=dst, VERIF_NO_EVIDENCE='1')
            r = sh([os.path.join(VERIF, 'check'), c, '--tier', a.tier], env=env2, timeout=7200)
            lines = [l for l in r.stdout.splitlines() if l.startswith(('VIOLATION', 'INCONCLUSIVE', c + ' '))]
            fired[c] = r.returncode
            meta['ran'].append({'cmd': './check %s --tier %s (VERIF_REPO=patched copy)' % (c, a.tier), 'exit': r.returncode,
                                'lines': [l[:300] for l in lines[:4]]})
            print('check %s: exit %d' % (c, r.returncode))
            for l in lines[:3]:
                print('   ', l[:300])
        meta['confirmed'] = bool(ok)
        meta['detected_by'] = [c for c, rc in fired.items() if rc == 1]
        meta['missed_by'] = [c for c, rc in fired.items() if rc != 1]
        out = os.path.join(VERIF, 'seeded', a.name)
        os.makedirs(out, exist_ok=True)
        with open(os.path.join(out, 'patch.diff'), 'wb') as f:
            f.write(diff)
        shutil.copy(a.demo, os.path.join(out, 'demo.py'))
        with open(os.path.join(out, 'meta.json'), 'w') as f:
            json.dump(meta, f, indent=1)
            f.write('\n')
        # sanity: stored patch applies to /repo
        r = sh(['git', '-C', '/repo', 'apply', '--check', os.path.join(out, 'patch.diff')])
        print('stored patch applies to /repo:', r.returncode == 0, r.stderr[:200])
        print('CONFIRMED' if ok else 'NOT CONFIRMED', '| detected by', meta['detected_by'], '| missed by', meta['missed_by'])
        return 0
    finally:
        shutil.rmtree(scratch, ignore_errors=True)


if __name__ == '__main__':
    sys.exit(main())
