#!/venv/bin/python
"""Mutation campaign: systematic small changes (AST operators) in the functions a property is anchored in, each tried on a
scratch copy of /repo against the property's check; changes the check does not notice are then run against the repository's
own tests.  What is left (unnoticed by both) is written out for triage: equivalent change, outside the property, or a gap.

  tools/mutcampaign.py C09 [--max 60] [--jobs 4] [--seed 0] [--whole-file] [--out DIR]

Nothing is written into /repo or into the evidence directory (VERIF_NO_EVIDENCE=1).  Results: <out>/<prop>.jsonl
"""
import argparse
import ast
import copy
import json
import os
import random
import re
import shutil
import subprocess
import sys
import tempfile
from concurrent.futures import ThreadPoolExecutor

VERIF = os.path.dirname(os.path.dirname(os.path.abspath(__file__)))
REPO = '/repo'

CMP = {ast.Lt: ast.LtE, ast.LtE: ast.Lt, ast.Gt: ast.GtE, ast.GtE: ast.Gt, ast.Eq: ast.NotEq, ast.NotEq: ast.Eq,
       ast.In: ast.NotIn, ast.NotIn: ast.In, ast.Is: ast.IsNot, ast.IsNot: ast.Is}
BIN = {ast.Add: ast.Sub, ast.Sub: ast.Add, ast.Mult: ast.Div, ast.Div: ast.Mult, ast.FloorDiv: ast.Div}
NAMES = {'min': 'max', 'max': 'min', 'any': 'all', 'all': 'any', 'sorted': 'list'}


def candidates(node):
    """-> list of (description, function returning the replacement node)"""
    out = []
    if isinstance(node, ast.Compare) and len(node.ops) == 1 and type(node.ops[0]) in CMP:
        def mk(node=node):
            n = copy.deepcopy(node)
            n.ops = [CMP[type(node.ops[0])]()]
            return n
        out.append(('compare %s->%s' % (type(node.ops[0]).__name__, CMP[type(node.ops[0])].__name__), mk))
    if isinstance(node, ast.BoolOp):
        def mk(node=node):
            n = copy.deepcopy(node)
            n.op = ast.Or() if isinstance(node.op, ast.And) else ast.And()
            return n
        out.append(('boolop swap', mk))
        for i in range(len(node.values)):
            def mk(node=node, i=i):
                n = copy.deepcopy(node)
                del n.values[i]
                return n.values[0] if len(n.values) == 1 else n
            out.append(('boolop drop operand %d' % i, mk))
    if isinstance(node, ast.UnaryOp) and isinstance(node.op, ast.Not):
        out.append(('drop not', lambda node=node: copy.deepcopy(node.operand)))
    if isinstance(node, ast.BinOp) and type(node.op) in BIN:
        def mk(node=node):
            n = copy.deepcopy(node)
            n.op = BIN[type(node.op)]()
            return n
        out.append(('binop %s->%s' % (type(node.op).__name__, BIN[type(node.op)].__name__), mk))
    if isinstance(node, ast.Constant):
        v = node.value
        if isinstance(v, bool):
            out.append(('const %r->%r' % (v, not v), lambda v=v: ast.Constant(not v)))
        elif isinstance(v, int):
            out.append(('const %r->%r' % (v, v + 1), lambda v=v: ast.Constant(v + 1)))
            out.append(('const %r->%r' % (v, v - 1), lambda v=v: ast.Constant(v - 1) if v - 1 >= 0 else ast.UnaryOp(ast.USub(), ast.Constant(1 - v))))
        elif isinstance(v, float):
            out.append(('const %r*1.05' % v, lambda v=v: ast.Constant(v * 1.05)))
    if isinstance(node, ast.If):
        def mk(node=node):
            n = copy.deepcopy(node)
            n.test = ast.UnaryOp(ast.Not(), n.test)
            return n
        out.append(('negate if', mk))
    if isinstance(node, ast.IfExp):
        def mk(node=node):
            n = copy.deepcopy(node)
            n.body, n.orelse = n.orelse, n.body
            return n
        out.append(('swap ifexp', mk))
    if isinstance(node, (ast.AugAssign,)) or (isinstance(node, ast.Expr) and isinstance(node.value, ast.Call)) or \
            (isinstance(node, ast.Assign) and all(isinstance(t, (ast.Subscript, ast.Attribute)) for t in node.targets)):
        out.append(('delete statement', lambda: ast.Pass()))
    if isinstance(node, ast.Continue):
        out.append(('continue->break', lambda: ast.Break()))
    if isinstance(node, ast.Break):
        out.append(('break->pass', lambda: ast.Pass()))
    if isinstance(node, ast.Call):
        if isinstance(node.func, ast.Name) and node.func.id in NAMES:
            def mk(node=node):
                n = copy.deepcopy(node)
                n.func.id = NAMES[node.func.id]
                if node.func.id == 'sorted':
                    n.keywords = []
                return n
            out.append(('call %s->%s' % (node.func.id, NAMES[node.func.id]), mk))
        for i, kw in enumerate(node.keywords):
            if kw.arg:
                def mk(node=node, i=i):
                    n = copy.deepcopy(node)
                    del n.keywords[i]
                    return n
                out.append(('drop keyword %s' % kw.arg, mk))
    if isinstance(node, ast.comprehension) and node.ifs:
        def mk(node=node):
            n = copy.deepcopy(node)
            n.ifs = n.ifs[1:]
            return n
        out.append(('drop comprehension filter', mk))
    return out


class Mutator(ast.NodeTransformer):
    def __init__(self, target, ranges):
        self.n = 0
        self.target = target
        self.ranges = ranges
        self.desc = None
        self.depth = 0

    def in_range(self, node):
        if self.ranges is None:
            return True
        return any(node.lineno <= hi and node.end_lineno >= lo for lo, hi in self.ranges)

    def visit(self, node):
        if isinstance(node, (ast.FunctionDef, ast.AsyncFunctionDef)):
            inside = self.in_range(node)
            self.depth += inside
            # skip the docstring
            r = self.generic_visit(node)
            self.depth -= inside
            return r
        if isinstance(node, ast.Expr) and isinstance(node.value, ast.Constant) and isinstance(node.value.value, str):
            return node
        if isinstance(node, ast.Raise):
            return node
        if self.depth and self.desc is None:
            for desc, make in candidates(node):
                if self.n == self.target:
                    self.n += 1
                    self.desc = 'line %d: %s' % (getattr(node, 'lineno', 0), desc)
                    return make()
                self.n += 1
        elif self.depth:
            self.n += len(candidates(node))
        return self.generic_visit(node)


def parse_anchors(prop):
    for l in open(os.path.join(VERIF, 'properties.jsonl')):
        d = json.loads(l)
        if d['id'] == prop:
            break
    files = d['anchors']['files']
    targets = {}
    for m in d['anchors']['mechanism']:
        cur = None
        for tok in re.findall(r'([\w/]+\.py|bin/martinize2)?:?\s*((?:\d+(?:-\d+)?(?:,\s*)?)+)?', m['where']):
            fname, rng = tok
            if fname:
                cand = [f for f in files if f.endswith(fname)]
                cur = cand[0] if cand else ('vermouth/' + fname if os.path.exists(os.path.join(REPO, 'vermouth', fname)) else None)
                if cur:
                    targets.setdefault(cur, [])
            if rng and cur:
                for part in re.findall(r'\d+(?:-\d+)?', rng):
                    lo, _, hi = part.partition('-')
                    targets[cur].append((int(lo) - 3, int(hi or lo) + 3))
    return targets


def enumerate_mutants(path, ranges):
    src = open(os.path.join(REPO, path)).read()
    tree = ast.parse(src)
    m = Mutator(-1, ranges or None)
    m.visit(copy.deepcopy(tree))
    return m.n


def make_mutant(path, ranges, index):
    src = open(os.path.join(REPO, path)).read()
    tree = ast.parse(src)
    m = Mutator(index, ranges or None)
    new = m.visit(tree)
    ast.fix_missing_locations(new)
    text = ast.unparse(new)
    if src.startswith('#!'):
        text = src.split('\n', 1)[0] + '\n' + text
    return m.desc, text + '\n'


def related_tests(path):
    base = os.path.basename(path).replace('.py', '')
    c = [os.path.join('vermouth/tests', d, 'test_%s.py' % base) for d in ('', 'gmx', 'pdb', 'rcsu', 'dssp')]
    extra = {'canonicalize_modifications': ['vermouth/tests/test_ptm_detection.py'], 'ffinput': ['vermouth/tests/test_ffinput.py', 'vermouth/tests/test_forcefield.py'],
             'molecule': ['vermouth/tests/test_molecule.py', 'vermouth/tests/test_block.py'],
             'martinize2': ['vermouth/tests/integration_tests/test_integration.py']}
    c += extra.get(base, [])
    return [t for t in c if os.path.exists(os.path.join(REPO, t))]


SHIM = '''import importlib, os
def resource_filename(pkg, name):
    return os.path.join(os.path.dirname(importlib.import_module(pkg).__file__), name)
'''


def evaluate(job):
    prop, path, ranges, index, with_tests = job[:5]
    tests_only = len(job) > 5 and job[5]
    desc, text = make_mutant(path, ranges, index)
    scratch = tempfile.mkdtemp(prefix='mc-%s-' % prop, dir='/tmp')
    dst = os.path.join(scratch, 'repo')
    rec = {'property': prop, 'file': path, 'index': index, 'mutation': desc}
    try:
        shutil.copytree(REPO, dst, ignore=shutil.ignore_patterns('.git', '__pycache__', '*.pyc', '.hypothesis', '.benchmarks'))
        open(os.path.join(dst, path), 'w').write(text)
        orig = ast.unparse(ast.parse(open(os.path.join(REPO, path)).read()))
        import difflib
        rec['diff'] = [l for l in difflib.unified_diff(orig.splitlines(), text.splitlines(), lineterm='', n=0)][2:12]
        env = dict(os.environ, VERIF_REPO=dst, VERIF_NO_EVIDENCE='1')
        if tests_only:
            rec['check_exit'] = 0
        else:
            r = subprocess.run([os.path.join(VERIF, 'check'), prop, '--tier', 'quick'], env=env, capture_output=True, text=True)
            rec['check_exit'] = r.returncode
            rec['check_lines'] = [l[:200] for l in r.stdout.splitlines() if l.startswith(('VIOLATION', 'INCONCLUSIVE'))][:2]
        if rec['check_exit'] == 0 and with_tests:
            # the whole upstream suite (with a stand-in for the missing pkg_resources, so that the 14 otherwise uncollectable
            # files - the golden CLI tests among them - run too); the related files first because they fail fastest
            shim = os.path.join(scratch, 'shim', 'pkg_resources')
            os.makedirs(shim)
            open(os.path.join(shim, '__init__.py'), 'w').write(SHIM)
            penv = dict(os.environ, PYTHONPATH=dst + os.pathsep + os.path.dirname(shim), PATH=os.path.join(dst, 'bin') + os.pathsep + os.environ['PATH'])
            penv.pop('VERMOUTH_VERIF', None)

            def run(args):
                for attempt in range(2):     # test_logging.py is flaky under hypothesis: one retry with a clean example store
                    shutil.rmtree(os.path.join(dst, '.hypothesis'), ignore_errors=True)
                    t = subprocess.run(['/venv/bin/python', '-m', 'pytest', '-q', '-rf', '-p', 'no:cacheprovider', '--timeout=900'] + args,
                                       cwd=dst, env=penv, capture_output=True, text=True)
                    last = (t.stdout.strip().splitlines() or ['?'])[-1]
                    good = ' failed' not in last and ' error' not in last and 'passed' in last
                    failed = [l.split(' - ')[0][7:] for l in t.stdout.splitlines() if l.startswith('FAILED ')]
                    # flaky under load: hypothesis deadlines (test_logging, test_molecule_equal, test_compare_dict_diff,
                    # test_name_moltype) and the 60 s subprocess limit of the integration tests -> one more attempt
                    if good or attempt or not failed or not all(any(k in f for k in ('test_logging', 'test_integration', 'test_name_moltype',
                                                                                     'test_molecule_equal', 'test_compare_dict_diff')) for f in failed):
                        break
                return good, (last[:160] + ' | ' + ','.join(f.split('::')[-1] for f in failed[:4]))[:300]
            rel = related_tests(path)
            ok = True
            if rel:
                ok, rec['related_tests'] = run(['-x'] + rel)
            if ok:
                ok, rec['full_tests'] = run(['-x', '-n', '4', 'vermouth'])
            rec['survives_tests'] = ok
    except Exception as e:   # noqa
        rec['error'] = repr(e)
    finally:
        shutil.rmtree(scratch, ignore_errors=True)
    return rec


def main():
    ap = argparse.ArgumentParser()
    ap.add_argument('prop')
    ap.add_argument('--max', type=int, default=60)
    ap.add_argument('--jobs', type=int, default=4)
    ap.add_argument('--seed', type=int, default=0)
    ap.add_argument('--whole-file', action='store_true')
    ap.add_argument('--no-tests', action='store_true')
    ap.add_argument('--only-file', default=None)
    ap.add_argument('--out', default='/root/mut')
    ap.add_argument('--retest', action='store_true', help='re-run only the repository tests for the mutants the check did not notice')
    a = ap.parse_args()
    if a.retest:
        outp = os.path.join(a.out, '%s.jsonl' % a.prop)
        recs = [json.loads(l) for l in open(outp)]
        targets = parse_anchors(a.prop)
        jobs = [(a.prop, r['file'], (None if a.whole_file else targets.get(r['file']) or None), r['index'], True, True)
                for r in recs if r.get('check_exit') == 0 and 'error' not in r]
        new = {}
        with ThreadPoolExecutor(a.jobs) as ex:
            for rec in ex.map(evaluate, jobs):
                new[(rec['file'], rec['index'])] = rec
                print('%-26s %s %s | %s' % ('UNNOTICED-and-tests-pass' if rec.get('survives_tests') else 'unnoticed-tests-fail',
                                            rec['file'], rec['mutation'], rec.get('full_tests') or rec.get('related_tests')), flush=True)
        with open(outp, 'w') as f:
            for r in recs:
                n = new.get((r['file'], r['index']))
                if n:
                    r.update({k: v for k, v in n.items() if k in ('related_tests', 'full_tests', 'survives_tests', 'mutation', 'diff')})
                f.write(json.dumps(r) + '\n')
        return
    os.makedirs(a.out, exist_ok=True)
    targets = parse_anchors(a.prop)
    jobs = []
    for path, ranges in sorted(targets.items()):
        if a.only_file and not path.endswith(a.only_file):
            continue
        if not ranges and not a.whole_file:
            continue
        rg = None if a.whole_file else ranges
        n = enumerate_mutants(path, rg)
        print('%s %s ranges=%s mutants=%d' % (a.prop, path, rg, n), flush=True)
        jobs += [(a.prop, path, rg, i, not a.no_tests) for i in range(n)]
    rnd = random.Random(a.seed)
    rnd.shuffle(jobs)
    jobs = jobs[:a.max]
    outp = os.path.join(a.out, '%s.jsonl' % a.prop)
    stats = {}
    with open(outp, 'a') as f, ThreadPoolExecutor(a.jobs) as ex:
        for rec in ex.map(evaluate, jobs):
            f.write(json.dumps(rec) + '\n')
            f.flush()
            k = 'error' if 'error' in rec else ('noticed' if rec['check_exit'] == 1 else ('inconclusive' if rec['check_exit'] == 2 else
                                                ('UNNOTICED-and-tests-pass' if rec.get('survives_tests') else 'unnoticed-tests-fail')))
            stats[k] = stats.get(k, 0) + 1
            print('%-26s %s %s' % (k, rec['file'], rec['mutation']), flush=True)
    print(a.prop, stats)


if __name__ == '__main__':
    main()
