#!/venv/bin/python
"""Regenerate MANIFEST.json from the property modules that exist (vf/props/cXX.py with MANIFEST dict)."""
import importlib
import json
import os
import sys

VERIF = os.path.dirname(os.path.dirname(os.path.abspath(__file__)))
sys.path.insert(0, VERIF)
sys.path.insert(0, '/repo')

ALL = ['C%02d' % i for i in range(1, 20)]

BASELINE_OFF = ('cd /repo && env -u VERMOUTH_VERIF /venv/bin/python -m pytest -ra -q -p no:cacheprovider --timeout=900 '
                '--continue-on-collection-errors -n 16')



TEXT = {
 'C01': ('reference-model monitor on do_mapping output + logged warnings (independent placement enumerator; reference atoms, alternative mappings, insertion codes, particle-adding modification mappings); invariants on real shipped mappings',
         'Held on the executions produced: thousands of generated force-field pairs/molecules per run compared particle by particle with a reference mapper, plus charmm peptides through the shipped mappings. Exploration is the right level: the input space (mappings x molecules) is unbounded and the oracle is total on the generated domain.'),
 'C02': ('offline checker over the written ITP text (independent ITP reader) against the in-memory molecule',
         'Held on the executions produced: every generated molecule (arbitrary keys, atom ids, interaction types, guards, edit histories) is written by the real writer and read back by an independent reader.'),
 'C03': ('cross-file consistency monitor over PDB/GRO/TOP/ITP files written by the library and by the real CLI (independent readers)',
         'Held on the executions produced: generated systems with interleaved and near-identical molecules, and CLI runs on assembled oligomers; every file set is read back with independent readers and cross-checked.'),
 'C04': ('by-construction ground-truth monitor on RepairGraph output over all shipped blocks in hostile presentations',
         'Held on the executions produced: blocks of the three atomistic force fields presented scrambled/permuted/incomplete/with extras; the expected result is known by construction. Watchdog hits are inconclusive, never violations.'),
 'C05': ('wrapped match_link generator + before/after interaction tables compared with an independent placement enumerator and a reference link interpreter',
         'Held on the executions produced: every link of eight shipped force fields on pipeline-built, hostilely renumbered molecules, and synthetic link lists using every documented feature.'),
 'C06': ('every yielded mapping checked against exhaustive enumeration (own matcher cross-checked with VF2) and automorphism classes; coset-inside-orbit invariant on the symmetry analysis; call histories on one matcher object and through a shared symmetry cache',
         'Held on the executions produced: graph pairs up to pattern 10 / host 14 nodes incl. structured symmetric families; exhaustive enumeration is the oracle. Termination is not claimed.'),
 'C07': ('audit-hook trace + directory snapshots against a sequential file-system model; exhaustive interruption-point enumeration per explored history (fork; process death at the k-th file-system event, and an exception injected at the k-th event); several rounds on one writer object; CLI exit code/listing gate',
         'fault_enumeration: for each explored history all N+1 process-death points and all N exception-injection points of finalisation are enumerated (also with the temporary directory on another file system); histories and CLI scenarios themselves are sampled.'),
 'C08': ('reference arithmetic on the return value of ignore_warnings_and_count fed by real logging calls; exhaustive small sub-domain',
         'Held on the executions produced, incl. an exhaustive enumeration of a small sub-domain; the function is pure arithmetic so exploration with an exact reference is adequate.'),
 'C09': ('exact weighted-mean oracle (fsum), NaN rule, bounding box and rigid-motion equivariance by paired executions; particles from the real do_mapping; processor object reused across differently configured force fields',
         'Held on the executions produced: generated particles with shared atoms, zero weights, weights far below 1, missing coordinates, centre weights, 2-D/3-D.'),
 'C10': ('O(N^2) pairwise reference with an independent Bondi table; tag-based conservation and residue-integrity checks on MakeBonds output',
         'Held on the executions produced: fragments of real structures and point clouds with planted near-threshold pairs, all modes and fudge factors.'),
 'C11': ('paired real CLI runs in separate processes (presentation applied in memory to read_system or to the input file itself: atom order, hydrogen names, rigid motion, hash seed; PDB and GRO input), pairwise comparison of the parsed output files; three known findings classified by mechanism',
         'Held on the executions produced: a sparse sample of (structure, options, presentation, hash seed); cannot be enumerated, each pair costs a full pipeline run.'),
 'C12': ('shadow-model monitor (atoms, bonds, interactions, citation keys) compared with every molecule of a pool after every operation of a random edit history; merge post-condition checked on observed before/after states',
         'Held on the executions produced: tens of thousands of operations per run, hostile orders emphasised.'),
 'C13': ('loaded objects compared with the abstract description the text was rendered from (every documented section in blocks, links and modifications); fault injection must raise; known finding classified by mechanism',
         'Held on the executions produced: generated .ff/.itp/.map files with equivalent spellings varied, and one injected fault per faulty file.'),
 'C14': ('identify_ptms wrapped from the harness; cover checker (exactly-once, induced, name/element rules, labels, warning) on molecule before/after',
         'Held on the executions produced: charmm/amber peptides through the real RepairGraph and synthetic modification sets built around the cover search.'),
 'C15': ('pairwise five-criteria reference on the elastic bonds; paired executions for rigid motion / atom order; NaN run must warn',
         'Held on the executions produced: generated molecules with irregular selections, domains, near-threshold pairs.'),
 'C16': ('round trip through the real writers and readers compared field by field with format tolerances; the system handed to the writer compared with its description after every write; one known finding classified by mechanism',
         'Held on the executions produced: systems up to 100 005 atoms crossing every field-width boundary.'),
 'C17': ('per-residue reference assignment on node attributes after AnnotateResidues (fresh and reused processor objects, residue identities edited in place between rounds); rule-table oracle for DSSP translation (exhaustive to length 4/6); AnnotateDSSP through the real mdtraj reader with only mdtraj.compute_dssp replaced by a residue-labelling stub',
         'Held on the executions produced; DSSP strings are enumerated exhaustively up to length 4 (quick) / 6 (thorough).'),
 'C18': ('set-based reference for Go sites and contacts on the objects after GoPipeline.run_system',
         'Held on the executions produced: generated multi-chain systems with cross-links and contact maps straddling every filter.'),
 'C19': ('per-specification residue matcher reference on node attributes and warnings after AnnotateMutMod; atom sets after the real RepairGraph; second-round requests on copies and on repaired systems; one processor object run on two systems',
         'Held on the executions produced: generated systems and specification lists using every subset of parts.'),
}


def main():
    checks = []
    na = []
    for pid in ALL:
        path = os.path.join(VERIF, 'vf', 'props', pid.lower() + '.py')
        if not os.path.exists(path):
            na.append({'property_id': pid, 'reason': 'check not built yet (work in progress; runtime monitoring applies, see DESIGN.md)'})
            continue
        mod = importlib.import_module('vf.props.' + pid.lower())
        m = getattr(mod, 'MANIFEST', {})
        checks.append({
            'property_id': pid,
            'quick_cmd': './check %s --tier quick' % pid,
            'thorough_cmd': './check %s --tier thorough' % pid,
            'evidence_file': 'evidence/%s.json' % pid,
            'replay_cmd_template': './check %s --replay {path}' % pid,
            'engine': 'vf',
            'level_claimed': {
                'category': mod.LEVEL,
                'text': TEXT[pid][1],
                'design_ref': 'DESIGN.md section 3, ' + pid,
            },
            'level_note': m.get('note', '; '.join(getattr(mod, 'ASSUMPTIONS', [])) or 'oracle correctness; bounded inputs'),
            'technique': 'runtime monitoring: ' + TEXT[pid][0],
        })
    manifest = {
        'version': 1,
        'setup_cmd': 'true',
        'hooks': {
            'guard': 'VERMOUTH_VERIF',
            'enable': 'no source hooks exist in /repo: all monitors wrap functions / install audit hooks from the harness '
                      '(VERMOUTH_VERIF=1 is exported to the processes under test but nothing in /repo reads it)',
            'baseline_off_cmd': BASELINE_OFF,
            'source_commits': [],
            'add_only': True,
        },
        'engines': [{'name': 'vf', 'path': 'vf/', 'serves_properties': [c['property_id'] for c in checks],
                     'kind_free_text': 'python harness: sharded subprocess workloads, per-case watchdog, JSONL event log, '
                                       'reference oracles, known-findings classifier'}],
        'checks': checks,
        'not_applicable': na,
        'notes': 'Entry point ./check <id> [--tier quick|thorough] [--seed N] [--replay FILE]; honours VERIF_SEED, '
                 'VERIF_TIER, VERIF_REPO (default /repo). Exit 0 held / 1 violation / 2 inconclusive run. '
                 'Known findings: known_findings.json.',
    }
    with open(os.path.join(VERIF, 'MANIFEST.json'), 'w') as f:
        json.dump(manifest, f, indent=1)
        f.write('\n')
    print('checks:', [c['property_id'] for c in checks])


if __name__ == '__main__':
    main()
