#!/venv/bin/python
"""Regenerate MANIFEST.json from the property modules that exist (vf/props/cXX.py with MANIFEST dict)."""
import importlib
import json
import os
import sys

VERIF = os.path.dirname(os.path.dirname(os.path.abspath(__file__)))
sys.path.insert(0, VERIF)
sys.path.insert(0, '/repo')

ALL = ['C%02d' % i for i in range(1, 20)]

BASELINE_OFF = ('cd /repo && env -u VERMOUTH_VERIF /venv/bin/python -m pytest -ra -q -p no:cacheprovider --timeout=900 '
                '--continue-on-collection-errors -n 16')


def main():
    checks = []
    na = []
    for pid in ALL:
        path = os.path.join(VERIF, 'vf', 'props', pid.lower() + '.py')
        if not os.path.exists(path):
            na.append({'property_id': pid, 'reason': 'check not built yet (work in progress; runtime monitoring applies, see DESIGN.md)'})
            continue
        mod = importlib.import_module('vf.props.' + pid.lower())
        m = getattr(mod, 'MANIFEST', {})
        checks.append({
            'property_id': pid,
            'quick_cmd': './check %s --tier quick' % pid,
            'thorough_cmd': './check %s --tier thorough' % pid,
            'evidence_file': 'evidence/%s.json' % pid,
            'replay_cmd_template': './check %s --replay {path}' % pid,
            'engine': 'vf',
            'level_claimed': {
                'category': mod.LEVEL,
                'text': m.get('text', 'Held on the executions produced: a reference oracle written from the property '
                                      'statement observes real executions of the code on generated and real inputs.'),
                'design_ref': 'DESIGN.md section 3, ' + pid,
            },
            'level_note': m.get('note', '; '.join(getattr(mod, 'ASSUMPTIONS', [])) or 'oracle correctness; bounded inputs'),
            'technique': m.get('technique', 'runtime monitoring: reference-model oracle on observed executions'),
        })
    manifest = {
        'version': 1,
        'setup_cmd': 'true',
        'hooks': {
            'guard': 'VERMOUTH_VERIF',
            'enable': 'no source hooks exist in /repo: all monitors wrap functions / install audit hooks from the harness '
                      '(VERMOUTH_VERIF=1 is exported to the processes under test but nothing in /repo reads it)',
            'baseline_off_cmd': BASELINE_OFF,
            'source_commits': [],
            'add_only': True,
        },
        'engines': [{'name': 'vf', 'path': 'vf/', 'serves_properties': [c['property_id'] for c in checks],
                     'kind_free_text': 'python harness: sharded subprocess workloads, per-case watchdog, JSONL event log, '
                                       'reference oracles, known-findings classifier'}],
        'checks': checks,
        'not_applicable': na,
        'notes': 'Entry point ./check <id> [--tier quick|thorough] [--seed N] [--replay FILE]; honours VERIF_SEED, '
                 'VERIF_TIER, VERIF_REPO (default /repo). Exit 0 held / 1 violation / 2 inconclusive run. '
                 'Known findings: known_findings.json.',
    }
    with open(os.path.join(VERIF, 'MANIFEST.json'), 'w') as f:
        json.dump(manifest, f, indent=1)
        f.write('\n')
    print('checks:', [c['property_id'] for c in checks])


if __name__ == '__main__':
    main()
