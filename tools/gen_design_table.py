#!/venv/bin/python
"""Rewrite the table of seeded changes in DESIGN.md (between the SEEDED-TABLE markers) from seeded/*/meta.json."""
import glob
import json
import os

VERIF = os.path.dirname(os.path.dirname(os.path.abspath(__file__)))
rows = ['| prop | seeded change | what it does | needs to manifest | detected by (quick tier) |',
        '|------|---------------|--------------|-------------------|--------------------------|']
for d in sorted(glob.glob(os.path.join(VERIF, 'seeded', '*', 'meta.json'))):
    m = json.load(open(d))
    rows.append('| %s | `%s` | %s | %s | %s |' % (m['property'], m['name'], m['description'].replace('|', '/')[:260],
                                               m['needs_to_manifest'].replace('|', '/')[:220], ('obsolete: masked by a later repository fix (see meta.json)' if m.get('obsolete') else
                                                ', '.join(m.get('detected_by') or []) or 'none')))
p = os.path.join(VERIF, 'DESIGN.md')
s = open(p).read()
b, e = '<!-- SEEDED-TABLE-BEGIN -->', '<!-- SEEDED-TABLE-END -->'
i, j = s.index(b), s.index(e)
s = s[:i + len(b)] + '\n' + '\n'.join(rows) + '\n' + s[j:]
open(p, 'w').write(s)
print(len(rows) - 2, 'seeded changes')
