#!/bin/bash
# Run the repository's test suite on a scratch copy of /repo's working tree (keeps /repo/.hypothesis clean:
# a rare hypothesis failure stored there would be replayed by every later run of the baseline command).
set -e
d=$(mktemp -d /tmp/repotest-XXXX)
rsync -a --exclude .git --exclude .hypothesis/examples --exclude __pycache__ /repo/ $d/repo/
cd $d/repo
PYTHONPATH=$d/repo env -u VERMOUTH_VERIF /venv/bin/python -m pytest -q -p no:cacheprovider -n ${N:-12} --timeout=900 --continue-on-collection-errors "$@" 2>&1 | tail -${TAIL:-1}
cd /; rm -rf $d
