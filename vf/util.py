"""Helpers shared by the property modules (no oracle logic here)."""
import importlib.machinery
import importlib.util
import logging
import os
import sys

REPO = os.environ.get('VERIF_REPO', '/repo')
if REPO not in sys.path:
    sys.path.insert(0, REPO)

_CLI = None


def load_cli():
    """Load $VERIF_REPO/bin/martinize2 as a module (never the stale installed copy)."""
    global _CLI
    if _CLI is None:
        path = os.path.join(REPO, 'bin', 'martinize2')
        loader = importlib.machinery.SourceFileLoader('martinize2_cli', path)
        spec = importlib.util.spec_from_loader('martinize2_cli', loader)
        mod = importlib.util.module_from_spec(spec)
        loader.exec_module(mod)
        # the CLI attaches a console handler to logger 'vermouth'; silence it here
        lg = logging.getLogger('vermouth')
        for hd in list(lg.handlers):
            if isinstance(hd, logging.StreamHandler) and not isinstance(hd, logging.NullHandler):
                lg.removeHandler(hd)
        _CLI = mod
    return _CLI


class Capture(logging.Handler):
    """Records (levelno, type, message) of everything logged on logger 'vermouth'."""
    def __init__(self):
        super().__init__(level=1)
        self.recs = []

    def emit(self, record):
        try:
            msg = record.getMessage()
        except Exception:  # formatting problems are not our subject
            msg = str(record.msg)
        self.recs.append((record.levelno, getattr(record, 'type', None), msg))

    def clear(self):
        self.recs.clear()

    def of_type(self, type_, minlevel=logging.WARNING):
        return [r for r in self.recs if r[1] == type_ and r[0] >= minlevel]


_CAP = None


def capture():
    global _CAP
    if _CAP is None:
        _CAP = Capture()
        lg = logging.getLogger('vermouth')
        lg.addHandler(_CAP)
        lg.setLevel(1)
        lg.propagate = False
    return _CAP


def data_path(*parts):
    return os.path.join(REPO, 'vermouth', 'data', *parts)


def test_data_path(*parts):
    return os.path.join(REPO, 'vermouth', 'tests', 'data', *parts)


_SHARED = {}


def shared(cls, *args, **kwargs):
    """One instance of a processor class per process and per constructor arguments: processors are reusable pipeline stages,
    so the workloads run one object over all the molecules/systems of a shard (state leaking from one run into the next is then
    observable), instead of a fresh object per case.  Replays re-run whole cases (batches), which keeps histories reproducible."""
    key = (cls, args, tuple(sorted(kwargs.items())))
    try:
        hash(key)
    except TypeError:
        return cls(*args, **kwargs)
    if key not in _SHARED:
        _SHARED[key] = cls(*args, **kwargs)
    return _SHARED[key]
