"""Independent induced-subgraph matcher (plain backtracking; shares nothing with vermouth.ismags or networkx VF2).

induced_isos(G, P, node_ok, edge_ok=None, induced=True)
    yields dicts {pattern node: graph node}: injective, node_ok(g, p) true for every pair, and for every pair of
    pattern nodes: P.has_edge(p1, p2) == G.has_edge(g1, g2) (only "=>" when induced=False), with
    edge_ok(g1, g2, p1, p2) true for every matched pattern edge.
"""


def _order(P):
    """Pattern nodes ordered so that each node (where possible) is adjacent to an earlier one."""
    nodes = list(P.nodes)
    seen = []
    inset = set()
    remaining = list(nodes)
    while remaining:
        # pick next: a node adjacent to seen with highest degree, else highest degree
        best = None
        for n in remaining:
            adj = sum(1 for m in P[n] if m in inset)
            key = (adj, len(P[n]))
            if best is None or key > best[0]:
                best = (key, n)
        n = best[1]
        seen.append(n)
        inset.add(n)
        remaining.remove(n)
    return seen


def induced_isos(G, P, node_ok, edge_ok=None, induced=True, candidates=None):
    order = _order(P)
    if not order:
        yield {}
        return
    gnodes = list(G.nodes)
    if candidates is None:
        candidates = {p: [g for g in gnodes if node_ok(g, p)] for p in order}
    assigned = {}
    used = set()

    def rec(i):
        if i == len(order):
            yield dict(assigned)
            return
        p = order[i]
        pn = P[p]
        for g in candidates[p]:
            if g in used:
                continue
            ok = True
            gn = G[g]
            for p2, g2 in assigned.items():
                pe = p2 in pn
                ge = g2 in gn
                if pe and not ge:
                    ok = False
                    break
                if induced and ge and not pe:
                    ok = False
                    break
                if pe and edge_ok is not None and not edge_ok(g, g2, p, p2):
                    ok = False
                    break
            if not ok:
                continue
            if p in pn:  # self loop in pattern
                if g not in gn:
                    continue
            elif induced and g in gn:
                continue
            assigned[p] = g
            used.add(g)
            yield from rec(i + 1)
            del assigned[p]
            used.discard(g)
    yield from rec(0)


def automorphisms(P, node_same, edge_same=None):
    """All automorphisms of P respecting node_same(p1, p2) / edge_same(p1a, p1b, p2a, p2b)."""
    return list(induced_isos(P, P, lambda g, p: node_same(g, p),
                             (lambda g1, g2, p1, p2: edge_same(g1, g2, p1, p2)) if edge_same else None))
