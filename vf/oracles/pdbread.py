"""Independent minimal PDB / GRO readers (fixed columns from the format descriptions; share no code with vermouth)."""


def read_pdb_text(text):
    """-> dict(atoms=[{serial,name,altloc,resname,chain,resid,icode,x,y,z,element,record}], ters=[index after which TER],
    conect={serial: [serials]}, molecules=[[atom indices]])  coordinates in Angstrom."""
    atoms = []
    conect = {}
    molecules = [[]]
    for line in text.split('\n'):
        rec = line[:6]
        if rec in ('ATOM  ', 'HETATM'):
            a = {'record': rec.strip(), 'serial': int(line[6:11]), 'name': line[12:16].strip(), 'altloc': line[16:17].strip(),
                 'resname': line[17:21].strip(), 'chain': line[21:22].strip(), 'resid': int(line[22:26]),
                 'icode': line[26:27].strip(), 'x': float(line[30:38]), 'y': float(line[38:46]), 'z': float(line[46:54]),
                 'element': line[76:78].strip() if len(line) >= 78 else ''}
            molecules[-1].append(len(atoms))
            atoms.append(a)
        elif rec.startswith('TER') or rec.startswith('ENDMDL'):
            if molecules[-1]:
                molecules.append([])
        elif rec == 'CONECT':
            nums = []
            body = line[6:].rstrip()
            for i in range(0, len(body), 5):
                tok = body[i:i + 5].strip()
                if tok:
                    nums.append(int(tok))
            if nums:
                conect.setdefault(nums[0], []).extend(nums[1:])
        elif rec.startswith('END'):
            if molecules[-1]:
                molecules.append([])
    if not molecules[-1]:
        molecules.pop()
    return {'atoms': atoms, 'conect': conect, 'molecules': molecules}


def read_gro_text(text):
    """-> dict(title, atoms=[{resid,resname,name,serial,x,y,z}], box)  coordinates in nm."""
    lines = text.split('\n')
    n = int(lines[1])
    atoms = []
    for line in lines[2:2 + n]:
        rest = line[20:]
        ndec = None
        # positions: three equally wide fields; find the width from the distance between decimal points
        first = rest.find('.')
        second = rest.find('.', first + 1)
        width = second - first
        vals = [float(rest[i * width:(i + 1) * width]) for i in range(3)]
        atoms.append({'resid': int(line[0:5]), 'resname': line[5:10].strip(), 'name': line[10:15].strip(),
                      'serial': int(line[15:20]), 'x': vals[0], 'y': vals[1], 'z': vals[2]})
    box = lines[2 + n].split() if len(lines) > 2 + n else []
    return {'title': lines[0], 'atoms': atoms, 'box': box}
