"""Independent reader for GROMACS .itp / .top text (written from the GROMACS file format description,
shares no code with vermouth).

parse(text) -> dict
    'moleculetypes': [ {'name', 'nrexcl', 'atoms': [row tokens], 'sections': {name: [(tokens, guard, comment)]},
                        'section_order': [...]} ]
    'defines': [(name, value, guard)]
    'includes': [(path, guard)]
    'system': [...], 'molecules': [(name, count)]
    'other': {section: [(tokens, guard)]}   # sections outside a moleculetype (defaults, atomtypes, nonbond_params...)
guard = None | (macro, True) for #ifdef | (macro, False) for #ifndef (innermost one)
"""
import re


class ItpSyntaxError(Exception):
    pass


_SECTION = re.compile(r'^\[\s*([A-Za-z_0-9]+)\s*\]$')


def parse(text):
    out = {'moleculetypes': [], 'defines': [], 'includes': [], 'system': [], 'molecules': [], 'other': {},
           'other_order': []}
    guards = []
    current = None          # current moleculetype dict
    section = None
    pending = ''
    for lineno, raw in enumerate(text.split('\n'), 1):
        line = pending + raw
        pending = ''
        comment = None
        if ';' in line:
            line, _, comment = line.partition(';')
            comment = comment.strip()
        line = line.strip()
        if line.endswith('\\'):
            pending = line[:-1] + ' '
            continue
        if not line:
            continue
        if line.startswith('#'):
            toks = line.split(None, 2)
            d = toks[0]
            if d in ('#ifdef', '#ifndef'):
                if len(toks) < 2:
                    raise ItpSyntaxError('line %d: %s without macro' % (lineno, d))
                guards.append((toks[1], d == '#ifdef'))
            elif d == '#endif':
                if not guards:
                    raise ItpSyntaxError('line %d: #endif without #if' % lineno)
                guards.pop()
            elif d == '#else':
                if not guards:
                    raise ItpSyntaxError('line %d: #else without #if' % lineno)
                g = guards.pop()
                guards.append((g[0], not g[1]))
            elif d == '#define':
                out['defines'].append((toks[1] if len(toks) > 1 else None, toks[2] if len(toks) > 2 else '',
                                       guards[-1] if guards else None))
            elif d == '#include':
                out['includes'].append((toks[1].strip('"<>') if len(toks) > 1 else None,
                                        guards[-1] if guards else None))
            else:
                raise ItpSyntaxError('line %d: unknown directive %s' % (lineno, d))
            continue
        m = _SECTION.match(line)
        if m:
            section = m.group(1)
            if section == 'moleculetype':
                current = {'name': None, 'nrexcl': None, 'atoms': [], 'sections': {}, 'section_order': [],
                           'guard_at_start': guards[-1] if guards else None}
                out['moleculetypes'].append(current)
            elif section in ('system', 'molecules', 'defaults', 'atomtypes', 'nonbond_params', 'bondtypes',
                             'pairtypes', 'angletypes', 'dihedraltypes', 'constrainttypes', 'implicit_genborn_params',
                             'cmaptypes'):
                current = None
                if section not in ('system', 'molecules'):
                    out['other'].setdefault(section, [])
                    out['other_order'].append(section)
            elif current is not None:
                current['section_order'].append(section)
                current['sections'].setdefault(section, [])
            else:
                out['other'].setdefault(section, [])
                out['other_order'].append(section)
            continue
        toks = line.split()
        guard = guards[-1] if guards else None
        if section is None:
            raise ItpSyntaxError('line %d: data before any section: %r' % (lineno, line))
        if section == 'moleculetype':
            if current['name'] is not None:
                raise ItpSyntaxError('line %d: second line in [ moleculetype ]' % lineno)
            if len(toks) != 2:
                raise ItpSyntaxError('line %d: [ moleculetype ] needs name and nrexcl' % lineno)
            current['name'], current['nrexcl'] = toks
        elif section == 'system':
            out['system'].append(line)
        elif section == 'molecules':
            if len(toks) != 2:
                raise ItpSyntaxError('line %d: [ molecules ] needs name and count' % lineno)
            out['molecules'].append((toks[0], int(toks[1])))
        elif current is not None and section == 'atoms':
            if guard is not None:
                raise ItpSyntaxError('line %d: conditional atom' % lineno)
            current['atoms'].append(toks)
        elif current is not None:
            current['sections'][section].append((toks, guard, comment))
        else:
            out['other'][section].append((toks, guard))
    if guards:
        raise ItpSyntaxError('unterminated conditional %r' % (guards,))
    return out


def atom_row(tokens):
    """[ atoms ] row -> dict; charge/mass None when the column is absent."""
    if len(tokens) < 6 or len(tokens) > 11:
        raise ItpSyntaxError('bad [ atoms ] row %r' % (tokens,))
    d = dict(zip(('nr', 'type', 'resnr', 'residue', 'atom', 'cgnr'), tokens[:6]))
    d['charge'] = tokens[6] if len(tokens) > 6 else None
    d['mass'] = tokens[7] if len(tokens) > 7 else None
    return d
