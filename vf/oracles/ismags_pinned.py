# FROZEN COPY of /repo/vermouth/ismags.py at repository commit 5bf8c40 (pinned snapshot + the repairs listed in
# known_findings.json).  NOT an oracle: it is used only to classify a violation of C06 as the KNOWN false-symmetry defect
# of the pinned algorithm - a violation counts as known only if this copy gives exactly the same wrong answer on the
# same input (see vf/props/c06.py, DESIGN.md section 4).
#!/usr/bin/env python3
# -*- coding: utf-8 -*-
# Copyright 2018 University of Groningen
#
# Licensed under the Apache License, Version 2.0 (the "License");
# you may not use this file except in compliance with the License.
# You may obtain a copy of the License at
#
#    http://www.apache.org/licenses/LICENSE-2.0
#
# Unless required by applicable law or agreed to in writing, software
# distributed under the License is distributed on an "AS IS" BASIS,
# WITHOUT WARRANTIES OR CONDITIONS OF ANY KIND, either express or implied.
# See the License for the specific language governing permissions and
# limitations under the License.
"""
****************
ISMAGS Algorithm
****************

Provides a Python implementation of the ISMAGS algorithm. [1]_

It is capable of finding (subgraph) isomorphisms between two graphs, taking the
symmetry of the subgraph into account. In most cases the VF2 algorithm is
faster (at least on small graphs) than this implementation, but in some cases
there is an exponential number of isomorphisms that are symmetrically
equivalent. In that case, the ISMAGS algorithm will provide only one solution
per symmetry group.

In addition, this implementation also provides an interface to find the
largest common induced subgraph [2]_ between any two graphs, again taking
symmetry into account. Given `graph` and `subgraph` the algorithm will remove
nodes from the `subgraph` until `subgraph` is isomorphic to a subgraph of
`graph`. Since only the symmetry of `subgraph` is taken into account it is
worth thinking about how you provide your graphs:

>>> graph1 = nx.path_graph(4)
>>> graph2 = nx.star_graph(3)
>>> ismags = isomorphism.ISMAGS(graph1, graph2)
>>> ismags.is_isomorphic()
False
>>> list(ismags.largest_common_subgraph())
[{1: 0, 0: 1, 2: 2}, {2: 0, 1: 1, 3: 2}]
>>> ismags2 = isomorphism.ISMAGS(graph2, graph1)
>>> list(ismags2.largest_common_subgraph())
[{1: 0, 0: 1, 2: 2},
 {1: 0, 0: 1, 3: 2},
 {2: 0, 0: 1, 1: 2},
 {2: 0, 0: 1, 3: 2},
 {3: 0, 0: 1, 1: 2},
 {3: 0, 0: 1, 2: 2}]

However, when not taking symmetry into account, it doesn't matter:

>>> list(ismags.largest_common_subgraph(symmetry=False))
[{1: 0, 0: 1, 2: 3},
 {1: 0, 2: 1, 0: 3},
 {2: 0, 1: 1, 3: 3},
 {2: 0, 3: 1, 1: 3},
 {1: 0, 0: 2, 2: 3},
 {1: 0, 2: 2, 0: 3},
 {2: 0, 1: 2, 3: 3},
 {2: 0, 3: 2, 1: 3},
 {1: 0, 0: 1, 2: 2},
 {1: 0, 2: 1, 0: 2},
 {2: 0, 1: 1, 3: 2},
 {2: 0, 3: 1, 1: 2}]
>>> list(ismags2.largest_common_subgraph(symmetry=False))
[{1: 0, 0: 1, 2: 3},
 {1: 0, 2: 1, 0: 3},
 {2: 0, 1: 1, 3: 3},
 {2: 0, 3: 1, 1: 3},
 {1: 0, 0: 2, 2: 3},
 {1: 0, 2: 2, 0: 3},
 {2: 0, 1: 2, 3: 3},
 {2: 0, 3: 2, 1: 3},
 {1: 0, 0: 1, 2: 2},
 {1: 0, 2: 1, 0: 2},
 {2: 0, 1: 1, 3: 2},
 {2: 0, 3: 1, 1: 2}]

Notes
-----
 - The current implementation works for undirected graphs only. The algorithm
   in general should work for directed graphs as well though.
 - Node keys for both provided graphs need to be fully orderable as well as
   hashable.
 - Node and edge equality is assumed to be transitive: if A is equal to B, and
   B is equal to C, then A is equal to C.

References
----------
    .. [1] M. Houbraken, S. Demeyer, T. Michoel, P. Audenaert, D. Colle,
       M. Pickavet, "The Index-Based Subgraph Matching Algorithm with General
       Symmetries (ISMAGS): Exploiting Symmetry for Faster Subgraph
       Enumeration", PLoS One 9(5): e97896, 2014.
       https://doi.org/10.1371/journal.pone.0097896
    .. [2] https://en.wikipedia.org/wiki/Maximum_common_induced_subgraph
"""

from collections import defaultdict, Counter
from functools import reduce, wraps
import itertools

def are_all_equal(iterable):  # frozen with the copy (vermouth.utils.are_all_equal for plain iterables)
    iterator = iter(iterable)
    first = next(iterator, None)
    return all(item == first for item in iterator)


# There are a number of "pragma: no cover" statements in this code, because
# their coverage would otherwise not be measure accurately.
# See https://github.com/nedbat/coveragepy/issues/198


class ISMAGS:
    """
    Implements the ISMAGS subgraph matching algorith. [1]_ ISMAGS stands for
    "Index-based Subgraph Matching Algorithm with General Symmetries". As the
    name implies, it is symmetry aware and will only generate non-symmetric
    isomorphisms.

    Notes
    -----
    The implementation imposes additional conditions compared to the VF2
    algorithm on the graphs provided and the comparison functions
    (:attr:`node_equality` and :attr:`edge_equality`):

     - Node keys in both graphs must be orderable as well as hashable.
     - Equality must be transitive: if A is equal to B, and B is equal to C,
       then A must be equal to C.

    Attributes
    ----------
    graph: networkx.Graph
    subgraph: networkx.Graph
    node_equality: collections.abc.Callable
        The function called to see if two nodes should be considered equal.
        It's signature looks like this:
        ``f(graph1: networkx.Graph, node1, graph2: networkx.Graph, node2) -> bool``.
        `node1` is a node in `graph1`, and `node2` a node in `graph2`.
        Constructed from the argument `node_match`.
    edge_equality: collections.abc.Callable
        The function called to see if two edges should be considered equal.
        It's signature looks like this:
        ``f(graph1: networkx.Graph, edge1, graph2: networkx.Graph, edge2) -> bool``.
        `edge1` is an edge in `graph1`, and `edge2` an edge in `graph2`.
        Constructed from the argument `edge_match`.
    """
    def __init__(self, graph, subgraph, node_match=None, edge_match=None,
                 cache=None):
        """
        Parameters
        ----------
        graph: networkx.Graph
        subgraph: networkx.Graph
        node_match: collections.abc.Callable or None
            Function used to determine whether two nodes are equivalent. Its
            signature should look like ``f(n1: dict, n2: dict) -> bool``, with
            `n1` and `n2` node property dicts. See also
            :func:`~networkx.algorithms.isomorphism.categorical_node_match` and
            friends.
            If `None`, all nodes are considered equal.
        edge_match: collections.abc.Callable or None
            Function used to determine whether two edges are equivalent. Its
            signature should look like ``f(e1: dict, e2: dict) -> bool``, with
            `e1` and `e2` edge property dicts. See also
            :func:`~networkx.algorithms.isomorphism.categorical_edge_match` and
            friends.
            If `None`, all edges are considered equal.
        cache: collections.abc.Mapping
            A cache used for caching graph symmetries.
        """
        # TODO: graph and subgraph setter methods that invalidate the caches.
        # TODO: allow for precomputed partitions and colors
        self.graph = graph
        self.subgraph = subgraph
        self._symmetry_cache = cache
        # Naming conventions are taken from the original paper. For your
        # sanity:
        #   sg: subgraph
        #   g: graph
        #   e: edge(s)
        #   n: node(s)
        # So: sgn means "subgraph nodes".
        self._sgn_partitions_ = None
        self._sge_partitions_ = None

        self._sgn_colors_ = None
        self._sge_colors_ = None

        self._gn_partitions_ = None
        self._ge_partitions_ = None

        self._gn_colors_ = None
        self._ge_colors_ = None

        self._node_compat_ = None
        self._edge_compat_ = None

        if node_match is None:
            self.node_equality = self._node_match_maker(lambda n1, n2: True)
            self._sgn_partitions_ = [set(self.subgraph.nodes)]
            self._gn_partitions_ = [set(self.graph.nodes)]
            self._node_compat_ = {0: 0}
        else:
            self.node_equality = self._node_match_maker(node_match)
        if edge_match is None:
            self.edge_equality = self._edge_match_maker(lambda e1, e2: True)
            self._sge_partitions_ = [set(self.subgraph.edges)]
            self._ge_partitions_ = [set(self.graph.edges)]
            self._edge_compat_ = {0: 0}
        else:
            self.edge_equality = self._edge_match_maker(edge_match)

    @property
    def _sgn_partitions(self):
        if self._sgn_partitions_ is None:
            def nodematch(node1, node2):
                return self.node_equality(self.subgraph, node1, self.subgraph, node2)
            self._sgn_partitions_ = make_partitions(self.subgraph.nodes, nodematch)
        return self._sgn_partitions_

    @property
    def _sge_partitions(self):
        if self._sge_partitions_ is None:
            def edgematch(edge1, edge2):
                return self.edge_equality(self.subgraph, edge1, self.subgraph, edge2)
            self._sge_partitions_ = make_partitions(self.subgraph.edges, edgematch)
        return self._sge_partitions_

    @property
    def _gn_partitions(self):
        if self._gn_partitions_ is None:
            def nodematch(node1, node2):
                return self.node_equality(self.graph, node1, self.graph, node2)
            self._gn_partitions_ = make_partitions(self.graph.nodes, nodematch)
        return self._gn_partitions_

    @property
    def _ge_partitions(self):
        if self._ge_partitions_ is None:
            def edgematch(edge1, edge2):
                return self.edge_equality(self.graph, edge1, self.graph, edge2)
            self._ge_partitions_ = make_partitions(self.graph.edges, edgematch)
        return self._ge_partitions_

    @property
    def _sgn_colors(self):
        if self._sgn_colors_ is None:
            self._sgn_colors_ = partition_to_color(self._sgn_partitions)
        return self._sgn_colors_

    @property
    def _sge_colors(self):
        if self._sge_colors_ is None:
            self._sge_colors_ = partition_to_color(self._sge_partitions)
        return self._sge_colors_

    @property
    def _gn_colors(self):
        if self._gn_colors_ is None:
            self._gn_colors_ = partition_to_color(self._gn_partitions)
        return self._gn_colors_

    @property
    def _ge_colors(self):
        if self._ge_colors_ is None:
            self._ge_colors_ = partition_to_color(self._ge_partitions)
        return self._ge_colors_

    @property
    def _node_compatibility(self):
        if self._node_compat_ is not None:
            return self._node_compat_
        self._node_compat_ = {}
        for sgn_part_color, gn_part_color in itertools.product(range(len(self._sgn_partitions)),
                                                               range(len(self._gn_partitions))):
            sgn = next(iter(self._sgn_partitions[sgn_part_color]))
            gn = next(iter(self._gn_partitions[gn_part_color]))
            if self.node_equality(self.subgraph, sgn, self.graph, gn):
                self._node_compat_[sgn_part_color] = gn_part_color
        return self._node_compat_

    @property
    def _edge_compatibility(self):
        if self._edge_compat_ is not None:
            return self._edge_compat_
        self._edge_compat_ = {}
        for sge_part_color, ge_part_color in itertools.product(range(len(self._sge_partitions)),
                                                               range(len(self._ge_partitions))):
            sge = next(iter(self._sge_partitions[sge_part_color]))
            ge = next(iter(self._ge_partitions[ge_part_color]))
            if self.edge_equality(self.subgraph, sge, self.graph, ge):
                self._edge_compat_[sge_part_color] = ge_part_color
        return self._edge_compat_

    @staticmethod
    def _node_match_maker(cmp):
        @wraps(cmp)
        def comparer(graph1, node1, graph2, node2):
            return cmp(graph1.nodes[node1], graph2.nodes[node2])
        return comparer

    @staticmethod
    def _edge_match_maker(cmp):
        @wraps(cmp)
        def comparer(graph1, edge1, graph2, edge2):
            return cmp(graph1.edges[edge1], graph2.edges[edge2])
        return comparer

    @staticmethod
    def _find_neighbor_color_count(graph, node, node_color, edge_color):
        """
        For `node` in `graph`, count the number of edges of a specific color
        it has to nodes of a specific color.
        """
        counts = Counter()
        neighbors = graph[node]
        for neighbor in neighbors:
            n_color = node_color[neighbor]
            if (node, neighbor) in edge_color:
                e_color = edge_color[node, neighbor]
            else:
                e_color = edge_color[neighbor, node]
            counts[e_color, n_color] += 1
        return counts

    def _get_lookahead_candidates(self):
        """
        Returns a mapping of {subgraph node: collection of graph nodes} for
        which the graph nodes are feasible candidates for the subgraph node, as
        determined by looking ahead one edge.
        """
        g_counts = {}
        for gn in self.graph:
            g_counts[gn] = self._find_neighbor_color_count(self.graph, gn,
                                                           self._gn_colors,
                                                           self._ge_colors)
        candidates = defaultdict(set)
        for sgn in self.subgraph:
            sg_count = self._find_neighbor_color_count(self.subgraph, sgn,
                                                       self._sgn_colors,
                                                       self._sge_colors)
            new_sg_count = Counter()
            for (sge_color, sgn_color), count in sg_count.items():
                try:
                    ge_color = self._edge_compatibility[sge_color]
                    gn_color = self._node_compatibility[sgn_color]
                except KeyError:
                    pass
                else:
                    new_sg_count[ge_color, gn_color] = count

            for gn, g_count in g_counts.items():
                if all(new_sg_count[x] <= g_count[x] for x in new_sg_count):
                    # Valid candidate
                    candidates[sgn].add(gn)
        return candidates

    def _edges_of_same_color(self, sgn1, sgn2):
        """
        Returns all edges in :attr:`graph` that have the same colour as the
        edge between sgn1 and sgn2 in :attr:`subgraph`.
        """
        if (sgn1, sgn2) in self._sge_colors:
            # FIXME directed graphs
            sge_color = self._sge_colors[sgn1, sgn2]
        else:
            sge_color = self._sge_colors[sgn2, sgn1]
        if sge_color in self._edge_compatibility:
            ge_color = self._edge_compatibility[sge_color]
            g_edges = self._ge_partitions[ge_color]
        else:
            g_edges = []
        return g_edges

    def _find_nodecolor_candidates(self):
        """
        Per node in subgraph find all nodes in graph that have the same color.
        """
        candidates = defaultdict(set)
        for sgn in self.subgraph.nodes:
            sgn_color = self._sgn_colors[sgn]
            if sgn_color in self._node_compatibility:
                gn_color = self._node_compatibility[sgn_color]
                candidates[sgn].add(frozenset(self._gn_partitions[gn_color]))
            else:
                candidates[sgn].add(frozenset())
        candidates = dict(candidates)
        for sgn, options in candidates.items():
            candidates[sgn] = frozenset(options)
        return candidates

    @staticmethod
    def _make_constraints(cosets):
        """
        Turn cosets into constraints.
        """
        constraints = set()
        for node_i, node_ts in cosets.items():
            for node_t in node_ts:
                if node_i != node_t:
                    # Node i must be smaller than node t.
                    constraints.add((node_i, node_t))
        return constraints

    def _map_nodes(self, sgn, candidates, constraints, mapping=None, to_be_mapped=None):
        """
        Find all subgraph isomorphisms honoring constraints.
        """
        if mapping is None:
            mapping = {}
        else:
            mapping = mapping.copy()
        if to_be_mapped is None:
            to_be_mapped = set(self.subgraph.nodes)

        # Note, we modify candidates here. Doesn't seem to affect results, but
        # remember this.
        #candidates = candidates.copy()
        sgn_candidates = intersect(candidates[sgn])
        candidates[sgn] = frozenset([sgn_candidates])
        for gn in sorted(sgn_candidates):
            # We're going to try to map sgn to gn.
            if gn in mapping.values() or sgn not in to_be_mapped:
                # gn is already mapped to something
                continue  # pragma: no cover

            # REDUCTION and COMBINATION
            mapping[sgn] = gn
            # BASECASE
            if to_be_mapped == set(mapping.keys()):
                yield {v: k for k, v in mapping.items()}
                continue
            left_to_map = to_be_mapped - set(mapping.keys())

            new_candidates = candidates.copy()
            sgn_neighbours = set(self.subgraph[sgn])
            not_gn_neighbours = set(self.graph.nodes) - set(self.graph[gn])
            for sgn2 in left_to_map:
                if sgn2 not in sgn_neighbours:
                    gn2_options = not_gn_neighbours
                else:
                    # Get all edges to gn of the right color:
                    g_edges = self._edges_of_same_color(sgn, sgn2)
                    # FIXME directed graphs
                    # And all nodes involved in those which are connected to gn
                    gn2_options = {n for e in g_edges for n in e if gn in e}
                # Node color compatibility should be taken care of by the
                # initial candidate lists made by find_subgraphs

                # Add gn2_options to the right collection. Since new_candidates
                # is a dict of frozensets of frozensets of node indices it's
                # a bit clunky. We can't do .add, and + also doesn't work. We
                # could do |, but I deem union to be clearer.
                new_candidates[sgn2] = new_candidates[sgn2].union([frozenset(gn2_options)])
                # Propagate the constraints. This should reduce the search space
                # by first dealing with highly symmetric nodes, since those will
                # have less candidates.
                if (sgn, sgn2) in constraints:
                    gn2_options = {gn2 for gn2 in self.graph if gn2 > gn}
                elif (sgn2, sgn) in constraints:
                    gn2_options = {gn2 for gn2 in self.graph if gn2 < gn}
                else:
                    continue  # pragma: no cover
                new_candidates[sgn2] = new_candidates[sgn2].union([frozenset(gn2_options)])

            # The next node is the one that is unmapped and has fewest
            # candidates
            # Pylint disables because it's a one-shot function.
            next_sgn = min(left_to_map,
                           key=lambda n: min(new_candidates[n], key=len))  # pylint: disable=cell-var-from-loop
            yield from self._map_nodes(next_sgn,
                                       new_candidates,
                                       constraints,
                                       mapping=mapping,
                                       to_be_mapped=to_be_mapped)
            # Unmap sgn-gn. Strictly not necessary since it'd get overwritten
            # when making a new mapping for sgn.
            #del mapping[sgn]

    def find_isomorphisms(self, symmetry=True):
        """
        Find all subgraph isomorphisms between :attr:`subgraph` <=
        :attr:`graph`.

        Parameters
        ----------
        symmetry: bool
            Whether symmetry should be taken into account. If False, found
            isomorphisms may be symmetrically equivalent.

        Yields
        ------
        dict
            The found isomorphism mappings of {graph_node: subgraph_node}.
        """
        # The networkx VF2 algorithm is slightly funny in when it yields an
        # empty dict and when not.
        if not self.subgraph:
            yield {}
            return
        elif not self.graph:
            return
        elif len(self.graph) < len(self.subgraph):
            return

        if symmetry:
            _, cosets = self.analyze_symmetry(self.subgraph,
                                              self._sgn_partitions,
                                              self._sge_colors)
            constraints = self._make_constraints(cosets)
        else:
            constraints = []

        candidates = self._find_nodecolor_candidates()
        la_candidates = self._get_lookahead_candidates()
        for sgn in self.subgraph:
            extra_candidates = la_candidates[sgn]
            if extra_candidates:
                candidates[sgn] = candidates[sgn] | {frozenset(extra_candidates)}

        if any(candidates.values()):
            start_sgn = min(candidates, key=lambda n: min(candidates[n], key=len))
            candidates[start_sgn] = (intersect(candidates[start_sgn]),)
            yield from self._map_nodes(start_sgn, candidates, constraints)
        else:
            return

    def is_isomorphic(self, symmetry=False):
        """
        Returns True if :attr:`graph` is isomorphic to :attr:`subgraph` and
        False otherwise.

        Returns
        -------
        bool
        """
        return len(self.subgraph) == len(self.graph) and self.subgraph_is_isomorphic(symmetry)

    def subgraph_is_isomorphic(self, symmetry=False):
        """
        Returns True if a subgraph of :attr:`graph` is isomorphic to
        :attr:`subgraph` and False otherwise.

        Returns
        -------
        bool
        """
        # symmetry=False, since we only need to know whether there is any
        # example; figuring out all symmetry elements probably costs more time
        # than it gains.
        isom = next(self.subgraph_isomorphisms_iter(symmetry=symmetry), None)
        return isom is not None

    def isomorphisms_iter(self, symmetry=True):
        """
        Does the same as :meth:`find_isomorphisms` if :attr:`graph` and
        :attr:`subgraph` have the same number of nodes.
        """
        if len(self.graph) == len(self.subgraph):
            yield from self.subgraph_isomorphisms_iter(symmetry=symmetry)

    def subgraph_isomorphisms_iter(self, symmetry=True):
        """
        Alternative name for :meth:`find_isomorphisms`.
        """
        return self.find_isomorphisms(symmetry)

    def _largest_common_subgraph(self, candidates, constraints,
                                 to_be_mapped=None):
        """
        Find all largest common subgraphs honoring constraints.
        """
        if to_be_mapped is None:
            to_be_mapped = {frozenset(self.subgraph.nodes)}

        # The LCS problem is basically a repeated subgraph isomorphism problem
        # with smaller and smaller subgraphs. We store the nodes that are
        # "part of" the subgraph in to_be_mapped, and we make it a little
        # smaller every iteration.

        # pylint disable becuase it's guarded against by default value
        current_size = len(next(iter(to_be_mapped), []))  # pylint: disable=stop-iteration-return

        found_iso = False
        if current_size <= len(self.graph):
            # There's no point in trying to find isomorphisms of
            # graph >= subgraph if subgraph has more nodes than graph.

            # Try the isomorphism first with the nodes with lowest ID. So sort
            # them. Those are more likely to be part of the final
            # correspondence. This makes finding the first answer(s) faster. In
            # theory.
            for nodes in sorted(to_be_mapped, key=sorted):
                # Find the isomorphism between subgraph[to_be_mapped] <= graph
                next_sgn = min(nodes, key=lambda n: min(candidates[n], key=len))
                isomorphs = self._map_nodes(next_sgn, candidates, constraints,
                                            to_be_mapped=nodes)

                # This is effectively `yield from isomorphs`, except that we look
                # whether an item was yielded.
                try:
                    item = next(isomorphs)
                except StopIteration:
                    pass
                else:
                    yield item
                    yield from isomorphs
                    found_iso = True

        # BASECASE
        if found_iso or current_size == 1:
            # Shrinking has no point because either 1) we end up with a smaller
            # common subgraph (and we want the largest), or 2) there'll be no
            # more subgraph.
            return

        left_to_be_mapped = set()
        for nodes in to_be_mapped:
            for sgn in nodes:
                # We're going to remove sgn from to_be_mapped, but subject to
                # symmetry constraints. We know that for every constraint we
                # have those subgraph nodes are equal. So whenever we would
                # remove the lower part of a constraint, remove the higher
                # instead. This is all dealth with by _remove_node. And because
                # left_to_be_mapped is a set, we don't do double work.

                # And finally, make the subgraph one node smaller.
                # REDUCTION
                new_nodes = self._remove_node(sgn, nodes, constraints)
                left_to_be_mapped.add(new_nodes)
        # COMBINATION
        yield from self._largest_common_subgraph(candidates, constraints,
                                                 to_be_mapped=left_to_be_mapped)

    @staticmethod
    def _remove_node(node, nodes, constraints):
        """
        Returns a new set where node has been removed from nodes, subject to
        symmetry constraints. We know, that for every constraint we have
        those subgraph nodes are equal. So whenever we would remove the
        lower part of a constraint, remove the higher instead.
        """
        while True:
            for low, high in constraints:
                if low == node and high in nodes:
                    node = high
                    break
            else:  # no break, couldn't find node in constraints
                break
        return frozenset(nodes - {node})

    def largest_common_subgraph(self, symmetry=True):
        """
        Find the largest common induced subgraphs between :attr:`subgraph` and
        :attr:`graph`.

        Parameters
        ----------
        symmetry: bool
            Whether symmetry should be taken into account. If False, found
            largest common subgraphs may be symmetrically equivalent.

        Yields
        ------
        dict
            The found isomorphism mappings of {graph_node: subgraph_node}.
        """
        # The networkx VF2 algorithm is slightly funny in when it yields an
        # empty dict and when not.
        if not self.subgraph:
            yield {}
            return
        elif not self.graph:
            return

        if symmetry:
            _, cosets = self.analyze_symmetry(self.subgraph,
                                              self._sgn_partitions,
                                              self._sge_colors)
            constraints = self._make_constraints(cosets)
        else:
            constraints = []

        candidates = self._find_nodecolor_candidates()

        if any(candidates.values()):
            yield from self._largest_common_subgraph(candidates, constraints)
        else:
            return

    @staticmethod
    def _find_node_edge_color(graph, node_colors, edge_colors):
        """
        For every node in graph, come up with a color that combines 1) the
        color of the node, and 2) the number of edges of a color to each type
        of node.
        """
        counts = defaultdict(lambda: defaultdict(int))
        for node1, node2 in graph.edges:
            if (node1, node2) in edge_colors:
                # FIXME directed graphs
                ecolor = edge_colors[node1, node2]
            else:
                ecolor = edge_colors[node2, node1]
            # Count per node how many edges it has of what color to nodes of
            # what color
            counts[node1][ecolor, node_colors[node2]] += 1
            counts[node2][ecolor, node_colors[node1]] += 1

        node_edge_colors = dict()
        for node in graph.nodes:
            node_edge_colors[node] = node_colors[node], set(counts[node].items())

        return node_edge_colors

    @staticmethod
    def _get_permutations_by_length(items):
        """
        Get all permutations of items, but only permute items with the same
        length.

        >>> list(_get_permutations_by_length([[1], [2], [3, 4], [4, 5]]))
        [[[1], [2], [3, 4], [4, 5]], [[2], [1], [3, 4], [4, 5]],
         [[1], [2], [4, 5], [3, 4]], [[2], [1], [4, 5], [3, 4]]]
        """
        by_len = defaultdict(list)
        for item in items:
            by_len[len(item)].append(item)

        yield from itertools.product(*(itertools.permutations(by_len[l]) for l in sorted(by_len)))

    @classmethod
    def _refine_node_partitions(cls, graph, node_partitions, edge_colors, branch=False):
        """
        Given a partition of nodes in graph, make the partitions smaller such
        that all nodes in a partition have 1) the same color, and 2) the same
        number of edges to specific other partitions.
        """
        def equal_color(node1, node2):
            return node_edge_colors[node1] == node_edge_colors[node2]

        node_partitions = list(node_partitions)
        node_colors = partition_to_color(node_partitions)
        node_edge_colors = cls._find_node_edge_color(graph, node_colors, edge_colors)
        if all(are_all_equal(node_edge_colors[node] for node in partition)
               for partition in node_partitions):
            yield node_partitions
            return

        def cell_key(cell):
            # All the nodes of a refined cell have the same color. The color
            # is defined relative to the position of the cells, which is
            # shared between the top and the bottom partitions; sorting on it
            # therefore puts equivalent cells at the same position in both.
            _, counts = node_edge_colors[next(iter(cell))]
            return len(cell), sorted(counts)

        new_partitions = []
        for partition in node_partitions:
            if not are_all_equal(node_edge_colors[node] for node in partition):
                refined = make_partitions(partition, equal_color)
                new_partitions.extend(sorted(refined, key=cell_key))
            else:
                new_partitions.append(partition)
        output = [new_partitions]
        for n_p in output:
            yield from cls._refine_node_partitions(graph, n_p, edge_colors, branch)

    @staticmethod
    def _find_permutations(top_partitions, bottom_partitions):
        """
        Return the pairs of top/bottom partitions where the partitions are
        different. Ensures that all partitions in both top and bottom
        partitions have size 1.
        """
        # Find permutations
        permutations = set()
        for top, bot in zip(top_partitions, bottom_partitions):
            # top and bot have only one element
            if len(top) != 1 or len(bot) != 1:
                raise IndexError("Not all nodes are coupled. This is"
                                 " impossible: {}, {}".format(top_partitions,
                                                              bottom_partitions))
            if top != bot:
                permutations.add(frozenset((next(iter(top)), next(iter(bot)))))
        return permutations

    @staticmethod
    def _update_orbits(orbits, permutations):
        """
        Update orbits based on permutations. Orbits is modified in place.
        For every pair of items in permutations their respective orbits are
        merged.
        """
        for permutation in permutations:
            node, node2 = permutation
            # Find the orbits that contain node and node2, and replace the
            # orbit containing node with the union
            first = second = None
            for idx, orbit in enumerate(orbits):
                if first is not None and second is not None:
                    break
                if node in orbit:
                    first = idx
                if node2 in orbit:
                    second = idx
            if first != second:
                orbits[first].update(orbits[second])
                del orbits[second]

    def _couple_nodes(self, top_partitions, bottom_partitions, pair_idx,
                      t_node, b_node, graph, edge_colors):
        """
        Generate new partitions from top and bottom_partitions where t_node is
        coupled to b_node. pair_idx is the index of the partitions where t_ and
        b_node can be found.
        """
        t_partition = top_partitions[pair_idx]
        b_partition = bottom_partitions[pair_idx]
        assert t_node in t_partition and b_node in b_partition
        # Couple node to node2. This means they get their own partition
        new_top_partitions = [top.copy() for top in top_partitions]
        new_bottom_partitions = [bot.copy() for bot in bottom_partitions]
        new_t_groups = {t_node}, t_partition - {t_node}
        new_b_groups = {b_node}, b_partition - {b_node}
        # Replace the old partitions with the coupled ones
        del new_top_partitions[pair_idx]
        del new_bottom_partitions[pair_idx]
        new_top_partitions[pair_idx:pair_idx] = new_t_groups
        new_bottom_partitions[pair_idx:pair_idx] = new_b_groups

        new_top_partitions = self._refine_node_partitions(graph,
                                                          new_top_partitions,
                                                          edge_colors)
        new_bottom_partitions = self._refine_node_partitions(graph,
                                                             new_bottom_partitions,
                                                             edge_colors, branch=True)
        new_top_partitions = list(new_top_partitions)
        assert len(new_top_partitions) == 1
        new_top_partitions = new_top_partitions[0]
        for bot in new_bottom_partitions:
            yield list(new_top_partitions), bot

    def _process_ordered_pair_partitions(self, graph, top_partitions,
                                         bottom_partitions, edge_colors,
                                         orbits=None, cosets=None):
        """
        Processes ordered pair partitions as per the reference paper. Finds and
        returns all permutations and cosets that leave the graph unchanged.
        """
        if orbits is None:
            orbits = [{node} for node in graph.nodes]
        else:
            # Note that we don't copy orbits when we are given one. This means
            # we leak information between the recursive branches. This is
            # intentional!
            orbits = orbits
        if cosets is None:
            cosets = {}
        else:
            cosets = cosets.copy()

        if not all(len(t_p) == len(b_p) for t_p, b_p in zip(top_partitions, bottom_partitions)):
            # This used to be an assertion, but it gets tripped in rare cases:
            # 5 - 4 \     / 12 - 13
            #        0 - 3
            # 9 - 8 /     \ 16 - 17
            # Assume 0 and 3 are coupled and no longer equivalent. At that point
            # {4, 8} and {12, 16} are no longer equivalent, and neither are
            # {5, 9} and {13, 17}. Coupling 4 and refinement results in 5 and 9
            # getting their own partitions, *but not 13 and 17*. Further
            # iterations will attempt to couple 5 to {13, 17}, which cannot
            # result in more symmetries?
            return [], cosets

        # BASECASE
        if all(len(top) == 1 for top in top_partitions):
            # All nodes are mapped
            permutations = self._find_permutations(top_partitions, bottom_partitions)
            self._update_orbits(orbits, permutations)
            if permutations:
                return [permutations], cosets
            else:
                return [], cosets

        permutations = []
        unmapped_nodes = {(node, idx)
                          for idx, t_partition in enumerate(top_partitions)
                          for node in t_partition if len(t_partition) > 1}
        node, pair_idx = min(unmapped_nodes)
        b_partition = bottom_partitions[pair_idx]

        for node2 in sorted(b_partition):
            if len(b_partition) == 1:
                # Can never result in symmetry
                continue  # pragma: no cover
            if node != node2 and any(node in orbit and node2 in orbit for orbit in orbits):
                # Orbit prune branch
                continue  # pragma: no cover
            # REDUCTION
            # Couple node to node2
            partitions = self._couple_nodes(top_partitions, bottom_partitions,
                                            pair_idx, node, node2, graph,
                                            edge_colors)
            for opp in partitions:
                new_top_partitions, new_bottom_partitions = opp

                new_perms, new_cosets = self._process_ordered_pair_partitions(
                    graph,
                    new_top_partitions,
                    new_bottom_partitions,
                    edge_colors,
                    orbits,
                    cosets
                )
                # COMBINATION
                permutations += new_perms
                cosets.update(new_cosets)

        mapped = {k for top, bottom in zip(top_partitions, bottom_partitions)
                  for k in top if len(top) == 1 and top == bottom}
        ks = {k for k in graph.nodes if k < node}
        # Have all nodes with ID < node been mapped?
        find_coset = ks <= mapped and node not in cosets
        if find_coset:
            # Find the orbit that contains node
            for orbit in orbits:
                if node in orbit:
                    cosets[node] = orbit.copy()
        return permutations, cosets

    def analyze_symmetry(self, graph, node_partitions, edge_colors):
        """
        Find a minimal set of permutations and corresponding co-sets that
        describe the symmetry of :attr:`subgraph`.

        Returns
        -------
        set[frozenset]
            The found permutations. This is a set of frozenset of pairs of node
            keys which can be exchanged without changing :attr:`subgraph`.
        dict[collections.abc.Hashable, set[collections.abc.Hashable]]
            The found co-sets. The co-sets is a dictionary of {node key:
            set of node keys}. Every key-value pair describes which `values`
            can be interchanged without changing nodes less than `key`.
        """
        if self._symmetry_cache is not None:
            key = hash((tuple(graph.nodes), tuple(graph.edges),
                        tuple(map(tuple, node_partitions)), tuple(edge_colors.items())))
            if key in self._symmetry_cache:
                return self._symmetry_cache[key]
        node_partitions = list(self._refine_node_partitions(graph,
                                                            node_partitions,
                                                            edge_colors))
        assert len(node_partitions) == 1
        node_partitions = node_partitions[0]
        permutations, cosets = self._process_ordered_pair_partitions(graph,
                                                                     node_partitions,
                                                                     node_partitions,
                                                                     edge_colors)
        if self._symmetry_cache is not None:
            self._symmetry_cache[key] = permutations, cosets
        return permutations, cosets


def make_partitions(items, test):
    """
    Partitions items into sets based on the outcome of ``test(item1, item2)``.
    Pairs of items for which `test` returns `True` end up in the same set.

    Parameters
    ----------
    items : collections.abc.Iterable[collections.abc.Hashable]
        Items to partition
    test : collections.abc.Callable[collections.abc.Hashable, collections.abc.Hashable]
        A function that will be called with 2 arguments, taken from items.
        Should return `True` if those 2 items need to end up in the same
        partition, and `False` otherwise.

    Returns
    -------
    list[set]
        A list of sets, with each set containing part of the items in `items`,
        such that ``all(test(*pair) for pair in  itertools.combinations(set, 2))
        == True``

    Notes
    -----
    The function `test` is assumed to be transitive: if ``test(a, b)`` and
    ``test(b, c)`` return ``True``, then ``test(a, c)`` must also be ``True``.
    """
    partitions = []
    for item in items:
        for partition in partitions:
            p_item = next(iter(partition))
            if test(item, p_item):
                partition.add(item)
                break
        else:  # No break
            partitions.append(set((item,)))
    return partitions


def partition_to_color(partitions):
    """
    Creates a dictionary with for every item in partition for every partition
    in partitions the index of partition in partitions.

    Parameters
    ----------
    partitions: collections.abc.Sequence[collections.abc.Iterable]
        As returned by :func:`make_partitions`.

    Returns
    -------
    dict[collections.abc.Hashable, int]
    """
    colors = dict()
    for color, keys in enumerate(partitions):
        for key in keys:
            colors[key] = color
    return colors


def intersect(collection_of_sets):
    """
    Given an collection of sets, returns the intersection of those sets.

    Parameters
    ----------
    collection_of_sets: collections.abc.Collection[set]
        A collection of sets.

    Returns
    -------
    set
        An intersection of all sets in `collection_of_sets`. Will have the same
        type as the item initially taken from `collection_of_sets`.
    """
    collection_of_sets = list(collection_of_sets)
    first = collection_of_sets.pop()
    out = reduce(set.intersection, collection_of_sets, set(first))
    return type(first)(out)
