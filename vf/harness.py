"""Common machinery: sharding, per-case watchdog, event log, evidence, known findings.

A property module (vf.props.cXX) exposes

    PROPERTY   = "C01"
    LEVEL      = "exploration" | "fault_enumeration"
    RULE       = text: how cases are generated and what makes one non-trivial
    ASSUMPTIONS = [..]
    MIN_HITS   = {"quick": n, "thorough": n}   minimum number of monitor evaluations
    CASE_TIMEOUT = seconds (signal.alarm around one case)
    PARALLEL   = max number of concurrent shard processes (default 16)
    cases(tier, seed) -> iterable of JSON-serialisable case parameter dicts
    run_case(params) -> record dict

A record is a dict with
    verdict      "held" | "violated" | "inconclusive"
    nontrivial   bool
    hash         canonical hash of the concrete case (for distinct counting)
    hits         number of oracle evaluations the monitor made in this case (int)
    features     {name: count}  coverage counters
    sample       optional JSON description of the concrete case
    key          (violated) mechanism key, looked up in known_findings.json
    what         (violated) one line
    witness      (violated) observed vs expected

The deciding step is always the oracle in run_case observing a real execution; this
file only schedules, records and aggregates.
"""
import hashlib
import json
import os
import random
import signal
import subprocess
import sys
import time
import traceback

VERIF = os.path.dirname(os.path.dirname(os.path.abspath(__file__)))
REPO = os.environ.get('VERIF_REPO', '/repo')
PYTHON = '/venv/bin/python'
GUARD = 'VERMOUTH_VERIF'


class CaseTimeout(BaseException):
    pass


def _alarm(signum, frame):
    raise CaseTimeout()


def h(obj):
    """Canonical short hash of a JSON-able object."""
    return hashlib.sha1(json.dumps(obj, sort_keys=True, default=str).encode()).hexdigest()[:16]


def rng(*parts):
    """Deterministic PRNG from a tuple of ints/strings (independent of PYTHONHASHSEED)."""
    s = hashlib.sha256(repr(parts).encode()).digest()
    return random.Random(int.from_bytes(s[:8], 'big'))


def load_module(prop):
    import importlib
    return importlib.import_module('vf.props.' + prop.lower())


def child_env():
    env = dict(os.environ)
    env['PYTHONPATH'] = REPO + os.pathsep + VERIF
    env['PYTHONDONTWRITEBYTECODE'] = '1'
    env.setdefault('PYTHONHASHSEED', '0')
    env['PYTHONWARNINGS'] = 'ignore'
    env['VERIF_REPO'] = REPO
    env[GUARD] = '1'
    env['OMP_NUM_THREADS'] = '1'
    env['OPENBLAS_NUM_THREADS'] = '1'
    env['MKL_NUM_THREADS'] = '1'
    return env


# --------------------------------------------------------------------------- shard side
def from_repo(exc):
    """True when the deepest frame of exc's traceback that belongs to either side belongs to the code under test."""
    return _blame(exc)[0] == 'repo'


def _blame(exc):
    repo = os.path.realpath(os.environ.get('VERIF_REPO', '/repo')) + os.sep
    verif = os.path.realpath(VERIF) + os.sep
    who, where = None, None
    for fs in traceback.extract_tb(exc.__traceback__):
        if fs.filename.startswith('<'):
            continue          # frozen / generated code ('<frozen codecs>', '<string>') belongs to neither side
        fn = os.path.realpath(fs.filename)
        if fn.startswith(repo):
            who, where = 'repo', (os.path.relpath(fn, repo), fs.name)
        elif fn.startswith(verif):
            who = 'verif'
    return who, where


def run_shard(prop, spec_path, out_path):
    mod = load_module(prop)
    with open(spec_path) as f:
        cases = json.load(f)
    timeout = getattr(mod, 'CASE_TIMEOUT', 20)
    signal.signal(signal.SIGALRM, _alarm)
    # the working directory of a shard is a scratch directory of its own (removed with the run's scratch tree): code under test
    # that wrongly writes next to the process instead of next to the destination must not litter the checkout
    wd = out_path + '.cwd'
    os.makedirs(wd, exist_ok=True)
    os.chdir(wd)
    with open(out_path, 'w') as out:
        for params in cases:
            t0 = time.time()
            try:
                signal.alarm(int(timeout))
                try:
                    rec = mod.run_case(params)
                finally:
                    signal.alarm(0)
            except CaseTimeout:
                rec = {'verdict': 'inconclusive', 'why': 'watchdog', 'hits': 0}
            except Exception as exc:
                # Who made the call that failed?  The deepest frame that belongs either to the code under test or to this
                # machinery decides: an exception escaping the repository's own code on an input the property covers (the
                # property modules catch the errors they expect) means the promised result was not delivered -> violation
                # with the traceback as witness; an exception in the oracle/harness is never a violation -> inconclusive.
                who, where = _blame(exc)
                if who == 'repo':
                    key = 'crash/%s/%s:%s' % (type(exc).__name__, where[0], where[1])
                    rec = {'verdict': 'violated', 'hits': 1, 'key': key,
                           'what': 'the code under test raised %s on an input the property covers' % type(exc).__name__,
                           'witness': {'exception': repr(exc)[:500], 'trace': traceback.format_exc()[-2500:]}}
                else:
                    rec = {'verdict': 'inconclusive', 'why': 'harness-error',
                           'trace': traceback.format_exc()[-2000:], 'hits': 0}
            rec['params'] = params
            rec['t'] = round(time.time() - t0, 4)
            out.write(json.dumps(rec, default=str) + '\n')
            out.flush()


# --------------------------------------------------------------------------- parent side
def load_known():
    path = os.path.join(VERIF, 'known_findings.json')
    if not os.path.exists(path):
        return []
    with open(path) as f:
        return json.load(f)['findings']


def run_check(prop, tier, seed, replay=None):
    import tempfile
    mod = load_module(prop)
    t0 = time.time()
    if replay:
        with open(replay) as f:
            w = json.load(f)
        all_cases = [w['params']]
    else:
        all_cases = list(mod.cases(tier, seed))
    par = min(getattr(mod, 'PARALLEL', 16), 16)
    nshards = max(1, min(par * getattr(mod, 'SHARDS_PER_PROC', 2), len(all_cases)))
    shards = [all_cases[i::nshards] for i in range(nshards)]
    case_timeout = getattr(mod, 'CASE_TIMEOUT', 20)
    shard_budget = getattr(mod, 'SHARD_TIMEOUT', {}).get(tier, 1500)
    scratch = tempfile.mkdtemp(prefix='vf-%s-' % prop)
    env = child_env()
    env.update(getattr(mod, 'ENV', {}))
    procs = []
    hashseeds = {}
    replay_hashseed = w.get('hashseed') if replay else None
    pending = list(enumerate(shards))
    running = {}
    records = []
    shard_failures = []

    def start(i, sh):
        sp = os.path.join(scratch, 'spec%d.json' % i)
        op = os.path.join(scratch, 'out%d.jsonl' % i)
        with open(sp, 'w') as f:
            json.dump(sh, f)
        # Shards run under different string-hash seeds (0..3 by shard number; a replay runs under the seed of the shard that
        # found the case): set/dict-of-string iteration orders the code under test may depend on are then not all the same.
        env_i = dict(env)
        if 'PYTHONHASHSEED' not in getattr(mod, 'ENV', {}):
            env_i['PYTHONHASHSEED'] = str(replay_hashseed if replay_hashseed is not None else
                                          os.environ.get('VERIF_HASHSEED', i % 4))
        hashseeds[i] = env_i['PYTHONHASHSEED']
        p = subprocess.Popen([PYTHON, '-m', 'vf.cli', '--shard', prop, sp, op], env=env_i,
                             cwd=VERIF, stdout=subprocess.DEVNULL, stderr=open(op + '.err', 'w'))
        running[i] = (p, op, time.time(), len(sh))

    try:
        while pending or running:
            while pending and len(running) < par:
                i, sh = pending.pop(0)
                start(i, sh)
            time.sleep(0.05)
            for i in list(running):
                p, op, ts, n = running[i]
                rc = p.poll()
                if rc is None:
                    if time.time() - ts > shard_budget:
                        p.kill()
                        p.wait()
                        rc = -9
                    else:
                        continue
                del running[i]
                got = 0
                if os.path.exists(op):
                    with open(op) as f:
                        for line in f:
                            try:
                                rec_ = json.loads(line)
                                rec_['hashseed'] = hashseeds.get(i)
                                records.append(rec_)
                                got += 1
                            except ValueError:
                                pass
                if rc != 0 or got < n:
                    err = ''
                    try:
                        err = open(op + '.err').read()[-1500:]
                    except OSError:
                        pass
                    shard_failures.append({'shard': i, 'rc': rc, 'got': got, 'of': n, 'stderr': err})
    finally:
        for i in list(running):
            running[i][0].kill()
        import shutil
        shutil.rmtree(scratch, ignore_errors=True)

    return finish(mod, prop, tier, seed, records, shard_failures, len(all_cases), time.time() - t0,
                  replay=bool(replay))


def finish(mod, prop, tier, seed, records, shard_failures, planned, wall, replay=False):
    known = [k for k in load_known() if k['property'] == prop]
    known_keys = {k['key']: k for k in known if k['status'] == 'known'}
    feats = {}
    hits = 0
    verdicts = {'held': 0, 'violated': 0, 'inconclusive': 0}
    inconc_why = {}
    nontrivial = set()
    samples = []
    violations = []
    known_seen = {}
    sub_total = sub_inconc = 0
    for r in records:
        v = r.get('verdict', 'inconclusive')
        verdicts[v] = verdicts.get(v, 0) + 1
        hits += int(r.get('hits', 0))
        for k, c in (r.get('features') or {}).items():
            feats[k] = feats.get(k, 0) + int(c)
        if r.get('nt_hashes') and v != 'inconclusive':
            nontrivial.update(r['nt_hashes'])
        elif r.get('nontrivial') and v != 'inconclusive':
            nontrivial.add(r.get('hash') or h(r.get('params')))
        r.pop('nt_hashes', None)
        if v == 'inconclusive':
            w = r.get('why', '?')
            inconc_why[w] = inconc_why.get(w, 0) + 1
        sub_total += int(r.get('sub_total', 1))
        sub_inconc += int(r.get('sub_inconclusive', 1 if v == 'inconclusive' else 0))
        for w, c in (r.get('sub_inconclusive_why') or {}).items():
            inconc_why[w] = inconc_why.get(w, 0) + c
        if v == 'violated':
            # a batch case may carry several violations (one per mechanism key)
            subs = r.get('violations') or [r]
            for sv in subs:
                sv = dict(sv)
                sv.setdefault('params', r.get('params'))
                sv.setdefault('hashseed', r.get('hashseed'))
                key = sv.get('key', 'unclassified')
                if key in known_keys:
                    known_seen.setdefault(key, []).append(sv)
                else:
                    violations.append(sv)
    # samples: prefer non-trivial, spread over the run
    cand = [r for r in records if r.get('sample') is not None and r.get('verdict') != 'inconclusive']
    cand.sort(key=lambda r: (not r.get('nontrivial'), h(r.get('params'))))
    for r in cand[:4]:
        samples.append({'params': r['params'], 'case': r['sample'], 'verdict': r['verdict'],
                        'hits': r.get('hits'), 'features': r.get('features')})
    if not samples and records:
        samples.append({'params': records[0].get('params'), 'verdict': records[0].get('verdict')})
    harness_errors = [r for r in records if r.get('why') == 'harness-error']

    out_lines = []
    for key, rs in sorted(known_seen.items()):
        out_lines.append('KNOWN-FINDING: property=%s %s [%s] (%d cases this run)' %
                         (prop, known_keys[key]['what'], key, len(rs)))
    replay_paths = []
    os.makedirs(os.path.join(VERIF, 'replays'), exist_ok=True)
    seen_keys = set()
    for r in violations:
        key = r.get('key', 'unclassified')
        if key in seen_keys and len(replay_paths) >= 5:
            continue
        seen_keys.add(key)
        path = os.path.join(VERIF, 'replays', '%s-%s.json' % (prop, h([r.get('params'), key])))
        with open(path, 'w') as f:
            json.dump({'property': prop, 'params': r.get('params'), 'key': key, 'what': r.get('what'),
                       'witness': r.get('witness'), 'seed': seed, 'tier': tier, 'hashseed': r.get('hashseed')}, f, indent=1, default=str)
        replay_paths.append(path)
        if len(replay_paths) <= 10:
            out_lines.append('VIOLATION property=%s replay=%s  # %s: %s' % (prop, path, key, r.get('what')))

    evaluated = verdicts['held'] + verdicts['violated']
    min_hits = getattr(mod, 'MIN_HITS', {}).get(tier, 1)
    max_inconc = getattr(mod, 'MAX_INCONCLUSIVE_FRACTION', 0.2)
    inconclusive_run = None
    if not replay:
        if shard_failures:
            inconclusive_run = 'shard failure: %r' % shard_failures[:2]
        elif harness_errors:
            inconclusive_run = 'harness error in %d cases: %s' % (len(harness_errors),
                                                                 harness_errors[0].get('trace', '')[-600:])
        elif hits < min_hits:
            inconclusive_run = 'monitor evaluations %d < required %d' % (hits, min_hits)
        elif sub_inconc > max_inconc * max(1, sub_total):
            inconclusive_run = 'inconclusive cases %d of %d: %r' % (sub_inconc, sub_total, inconc_why)

    evidence = {
        'property_id': prop,
        'tier': tier,
        'seed': seed,
        'level': mod.LEVEL,
        'coverage': {
            'evaluations': len(records),
            'distinct_nontrivial': len(nontrivial),
            'rule': mod.RULE,
            'samples': samples,
            'monitor_evaluations': hits,
            'verdicts': verdicts,
            'inconclusive_reasons': inconc_why,
            'subcases': sub_total,
            'subcases_inconclusive': sub_inconc,
            'features_observed': dict(sorted(feats.items())),
            'planned_cases': planned,
            'known_findings_seen': {k: len(v) for k, v in known_seen.items()},
            'run_verdict': ('violated' if violations else 'inconclusive' if inconclusive_run else 'held'),
        },
        'assumptions': list(getattr(mod, 'ASSUMPTIONS', [])),
        'wall_s': round(wall, 2),
        'violations': len(violations),
    }
    if hasattr(mod, 'EXHAUSTIVE_NOTE'):
        evidence['coverage']['exhaustive_note'] = mod.EXHAUSTIVE_NOTE
    if inconclusive_run:
        evidence['coverage']['inconclusive_run'] = inconclusive_run
    if not replay and not os.environ.get('VERIF_NO_EVIDENCE'):
        os.makedirs(os.path.join(VERIF, 'evidence'), exist_ok=True)
        with open(os.path.join(VERIF, 'evidence', prop + '.json'), 'w') as f:
            json.dump(evidence, f, indent=1, default=str)
            f.write('\n')

    for line in out_lines:
        print(line)
    print('%s tier=%s seed=%d cases=%d held=%d violated=%d (known=%d) inconclusive=%d '
          'subcases=%d sub_inconclusive=%d %r nontrivial_distinct=%d monitor_evals=%d wall=%.1fs' %
          (prop, tier, seed, len(records), verdicts['held'], verdicts['violated'],
           sum(len(v) for v in known_seen.values()), verdicts['inconclusive'], sub_total, sub_inconc, inconc_why,
           len(nontrivial), hits, wall))
    interesting = {k: v for k, v in sorted(feats.items())}
    print('  features:', json.dumps(interesting))
    if replay:
        for r in records:
            print(json.dumps({k: r.get(k) for k in ('verdict', 'key', 'what', 'witness', 'violations', 'why', 'trace')
                              if r.get(k) is not None}, indent=1, default=str)[:6000])
    if violations:
        return 1
    if inconclusive_run:
        print('INCONCLUSIVE property=%s: %s' % (prop, inconclusive_run))
        return 2
    return 0


class sub_alarm:
    """Per-sub-case watchdog inside a batch case: `with sub_alarm(5): ...` raises CaseTimeout in the body;
    the enclosing per-case alarm is re-armed afterwards."""

    def __init__(self, seconds):
        self.seconds = int(seconds)

    def __enter__(self):
        self.t0 = time.time()
        self.prev = signal.alarm(self.seconds)
        return self

    def __exit__(self, *exc):
        signal.alarm(0)
        if self.prev:
            signal.alarm(max(1, int(self.prev - (time.time() - self.t0))))
        return False


class Batch:
    """Accumulator for a case that consists of many sub-cases (keeps going after a violation so that one
    mechanism does not mask another; keeps the first witness per mechanism key)."""

    def __init__(self):
        self.hits = 0
        self.feats = {}
        self.nth = set()
        self.sample = None
        self.viol = {}
        self.counts = {}
        self.total = 0
        self.inconc = {}

    def feat(self, f, n=1):
        if isinstance(f, dict):
            for k, v in f.items():
                if v:
                    self.feats[k] = self.feats.get(k, 0) + int(v)
        elif n:
            self.feats[f] = self.feats.get(f, 0) + n

    def nontrivial(self, obj, sample=None):
        self.nth.add(obj if isinstance(obj, str) and len(obj) == 16 else h(obj))
        if self.sample is None and sample is not None:
            self.sample = sample

    def violation(self, key, what, witness):
        self.counts[key] = self.counts.get(key, 0) + 1
        if key not in self.viol:
            self.viol[key] = {'key': key, 'what': what, 'witness': witness}

    def inconclusive(self, why):
        self.inconc[why] = self.inconc.get(why, 0) + 1

    def result(self):
        rec = {'hits': self.hits, 'sub_total': (self.total or self.hits or 1), 'sub_inconclusive': sum(self.inconc.values()),
               'sub_inconclusive_why': self.inconc, 'features': self.feats, 'nontrivial': bool(self.nth),
               'nt_hashes': sorted(self.nth), 'sample': self.sample}
        if self.viol:
            rec['verdict'] = 'violated'
            rec['violations'] = list(self.viol.values())
            rec['violation_counts'] = self.counts
            first = rec['violations'][0]
            rec['key'], rec['what'] = first['key'], first['what']
        else:
            rec['verdict'] = 'held'
        return rec
