import argparse
import os
import sys

from . import harness


def main():
    if len(sys.argv) > 1 and sys.argv[1] == '--shard':
        sys.path.insert(0, harness.REPO)
        harness.run_shard(sys.argv[2], sys.argv[3], sys.argv[4])
        return 0
    ap = argparse.ArgumentParser()
    ap.add_argument('prop')
    ap.add_argument('--tier', default=os.environ.get('VERIF_TIER', 'quick'), choices=['quick', 'thorough'])
    ap.add_argument('--replay')
    ap.add_argument('--seed', type=int, default=int(os.environ.get('VERIF_SEED', '0') or 0))
    a = ap.parse_args()
    return harness.run_check(a.prop.upper(), a.tier, a.seed, a.replay)


if __name__ == '__main__':
    sys.exit(main())
