"""C11 - the topology depends on the chemistry of the input, not on its presentation.

Events : ITP / TOP / PDB files written by the real CLI (entry() of bin/martinize2 in a fresh process per run), for a
         reference presentation and for presentations of the same structure (atoms permuted within residues, hydrogens
         renamed, rigidly moved in float64, another PYTHONHASHSEED) applied in memory to what the CLI's read_system returns.
Oracle : pairwise comparison with the reference: parsed ITPs equal (atoms in order, per-section multisets of interactions,
         numeric parameters within printing tolerance), TOP equal, output coordinates co-moving; for hash seeds the order
         and the parameter strings must be identical.
"""
import json
import math
import os
import shutil
import subprocess
import sys
import tempfile

import numpy as np

from .. import harness, util
from ..oracles import itpread, pdbread

PROPERTY = 'C11'
LEVEL = 'exploration'
RULE = ('Inputs: the tier-0/tier-1 structures of the repository\'s test data (mini proteins, villin, hst5, bpti, 1UBQ, '
        '3i40 with two chains and disulfides, 6LFO_gap, lysozyme in thorough). Options crossed sparsely: target force field '
        '(martini3001 / martini22 / elnedyn22), -elastic (also -eunit chain), -p backbone, -ss, -dssp (mdtraj), '
        '-cys auto / none / 0.5, -nt, -noscfix, -resid input, -merge. Each group = reference run + runs with atoms permuted '
        'within residues (random and reversed), hydrogens renamed (PDB-style rotation and arbitrary names), rigid motion, '
        'and another hash seed. Non-trivial pair = the presentation really changed atom order / names / frame (recorded by '
        'the wrapper) and the reference topology has >= 1 inter-residue interaction. distinct = distinct (input, options, '
        'presentation) triples. Also: Go-model option sets (presented permuted, H-renamed, hash-seeded and translated, never rotated), requested terminal modifications (caps, neutral termini); a reference run that fails is retried under six other hash seeds; the structure handed over as a .gro file; hydrogens renamed in the input file itself (old PDB style 1HB, arbitrary); two bonded chains whose atom serial numbers restart per chain, with -dssp; an input that fails as given and converts in another presentation is a violation.')
ASSUMPTIONS = ['numeric parameters are compared as printed with tolerance 1e-4 relative + 2e-5 absolute (geometry-derived values '
               'are printed with 5 decimals and may flip their last digit); dihedral angles of +-180 are identified',
               'an elastic bond whose length is within 2e-5 nm of the upper cut-off may be present in one run only '
               '(admissible, counted)', 'comment lines (citations, header, command line) are not compared']
MIN_HITS = {'quick': 24, 'thorough': 250}
CASE_TIMEOUT = 1700
SHARD_TIMEOUT = {'quick': 900, 'thorough': 3400}
PARALLEL = 8
SHARDS_PER_PROC = 1
T0 = 'integration_tests/tier-0/'
T1 = 'integration_tests/tier-1/'
INPUTS_QUICK = [T0 + 'mini-protein1_betasheet/aa.pdb', T0 + 'mini-protein2_helix/aa.pdb', T0 + 'mini-protein3_trp-cage/aa.pdb',
                T0 + 'dipro-termini/aa.pdb', T1 + 'villin/aa.pdb', T1 + 'hst5/aa.pdb']
INPUTS_MORE = [T1 + 'bpti/aa.pdb', T1 + '1UBQ/aa.pdb', T1 + '3i40/3i40.pdb', T1 + '6LFO_gap/6LFO_gap.pdb', T1 + 'prot_modf_charmm/input.pdb', T1 + 'lysozyme/aa.pdb']
OPTION_SETS = [
    ['-ff', 'martini3001'],
    ['-ff', 'martini3001', '-elastic'],
    ['-ff', 'martini22', '-elastic', '-eunit', 'chain', '-noscfix'],
    ['-ff', 'elnedyn22', '-noscfix'],
    ['-ff', 'martini3001', '-p', 'backbone', '-nt'],
    ['-ff', 'martini3001', '-dssp'],
    ['-ff', 'martini3001', '-cys', '0.5', '-elastic'],
    ['-ff', 'martini3001', '-cys', 'none', '-resid', 'input'],
    ['-ff', 'martini22', '-noscfix', '-merge', 'all'],
    ['-ff', 'martini3001', '-noscfix', '-ss', 'C'],
    ['-ff', 'martini3001', '-nter', 'NCAP-ter', '-cter', 'CCAP-ter'],
    ['-ff', 'martini3001', '-nter', 'NCAP-ter'],
    ['-ff', 'martini22', '-nt', '-noscfix', '-cter', 'CCAP-ter'],
    ['-ff', 'martini3001', '-go'],
    ['-ff', 'martini3001', '-go', '-go-eps', '12', '-go-res-dist', '4', '-water-bias', '-water-bias-eps', 'H:3.6', 'C:2.1', '-ss', 'H'],
]
PRESENTATIONS = [('permute', {'pstyle': 'random'}), ('permute', {'pstyle': 'reverse'}), ('rename-h', {'hstyle': 'pdb-rotation'}),
                 ('rename-h', {'hstyle': 'arbitrary'}), ('rigid', {}), ('hashseed', {}), ('translate-file', {}),
                 ('rename-h-file', {'hstyle': 'pdb-rotation'}), ('rename-h-file', {'hstyle': 'arbitrary'}),
                 ('rename-h', {'hstyle': 'arbitrary-reversed'})]


def run_cli(pdb, options, presentation, extra, pseed, hashseed, workdir):
    os.makedirs(workdir, exist_ok=True)
    spec = {'presentation': presentation, 'pseed': pseed, 'outdir': workdir,
            'argv': ['-f', pdb, '-x', 'out.pdb', '-o', 'topol.top', '-maxwarn', '1000'] + list(options)}
    spec.update(extra)
    sp = os.path.join(workdir, 'spec.json')
    with open(sp, 'w') as f:
        json.dump(spec, f)
    env = dict(os.environ, PYTHONPATH=util.REPO + os.pathsep + harness.VERIF, PYTHONHASHSEED=str(hashseed), VERIF_REPO=util.REPO)
    r = subprocess.run([sys.executable, '-m', 'vf.props.c11_run', sp], env=env, capture_output=True, text=True, timeout=1200, cwd=workdir)
    return r


def load_outputs(workdir):
    out = {'itps': {}, 'top': None, 'pdb': None, 'presentation': None}
    with open(os.path.join(workdir, 'topol.top')) as f:
        out['top'] = itpread.parse(f.read())
    for n, _ in out['top']['molecules']:
        if n not in out['itps']:
            with open(os.path.join(workdir, n + '.itp')) as f:
                out['itps'][n] = itpread.parse(f.read())['moleculetypes'][0]
    out['extra'] = {}
    for inc, _ in out['top']['includes']:
        if inc and inc != 'martini.itp' and inc[:-4] not in out['itps'] and os.path.exists(os.path.join(workdir, inc)):
            with open(os.path.join(workdir, inc)) as f:
                out['extra'][inc] = itpread.parse(f.read())['other']
    with open(os.path.join(workdir, 'out.pdb')) as f:
        out['pdb'] = pdbread.read_pdb_text(f.read())
    with open(os.path.join(workdir, 'presentation.json')) as f:
        out['presentation'] = json.load(f)
    return out


def num(tok):
    try:
        return float(tok)
    except ValueError:
        return None


def tokens_equal(a, b, exact):
    if a == b:
        return True
    if exact or len(a) != len(b):
        return False
    for x, y in zip(a, b):
        if x == y:
            continue
        fx, fy = num(x), num(y)
        if fx is None or fy is None:
            return False
        # lengths (nm, written with five decimals) may differ in the last printed digit only; larger numbers (force constants,
        # angles in degrees) by 1e-4 relative
        big = max(abs(fx), abs(fy))
        if abs(fx - fy) <= (2.5e-5 if big < 5 else 1e-4 * big + 2e-5):
            continue
        if abs(abs(fx) - 180) < 0.6 and abs(abs(fy) - 180) < 0.6:
            continue
        return False
    return True


def compare(ref, other, exact, upper=None):
    """-> (problem | None, admissible differences)"""
    admissible = 0
    if ref['top']['molecules'] != other['top']['molecules']:
        return ('top/molecules', {'reference': ref['top']['molecules'], 'other': other['top']['molecules']}), 0
    if sorted(ref['top']['includes']) != sorted(other['top']['includes']) or ref['top']['defines'] != other['top']['defines']:
        return ('top/includes-or-defines', {'reference': ref['top']['includes'], 'other': other['top']['includes']}), 0
    if sorted(ref.get('extra', {})) != sorted(other.get('extra', {})):
        return ('top/extra-include-files', {'reference': sorted(ref.get('extra', {})), 'other': sorted(other.get('extra', {}))}), 0
    for inc, secs in ref.get('extra', {}).items():
        for sname in set(secs) | set(other['extra'][inc]):
            a = [list(t) for t, g in secs.get(sname, [])]
            c = [list(t) for t, g in other['extra'][inc].get(sname, [])]
            if exact:
                if a != c:
                    return ('hashseed/extra-file-differs', {'file': inc, 'section': sname, 'n_reference': len(a), 'n_other': len(c)}), 0
                continue
            rest = list(c)
            unmatched = []
            for row in a:
                hit = next((j for j, row2 in enumerate(rest) if tokens_equal(row, row2, False)), None)
                if hit is None:
                    unmatched.append(row)
                else:
                    del rest[hit]
            if unmatched or rest:
                return ('itp/extra-file-rows', {'file': inc, 'section': sname, 'only_in_one_run': (unmatched + rest)[:5],
                                                'n_reference': len(a), 'n_other': len(c)}), 0
    for n, r in ref['itps'].items():
        o = other['itps'].get(n)
        if o is None:
            return ('itp/missing', {'moltype': n}), 0
        if r['atoms'] != o['atoms']:
            for k, (x, y) in enumerate(zip(r['atoms'], o['atoms'])):
                if x != y and not tokens_equal(x, y, exact):
                    return ('itp/atoms', {'moltype': n, 'row': k + 1, 'reference': x, 'other': y}), 0
            if len(r['atoms']) != len(o['atoms']):
                return ('itp/atom-count', {'moltype': n, 'reference': len(r['atoms']), 'other': len(o['atoms'])}), 0
        if r['nrexcl'] != o['nrexcl']:
            return ('itp/nrexcl', {}), 0
        secs = set(r['sections']) | set(o['sections'])
        for s in secs:
            a = [(list(t), g) for t, g, _ in r['sections'].get(s, [])]
            c = [(list(t), g) for t, g, _ in o['sections'].get(s, [])]
            if exact:
                if a != c:
                    return ('hashseed/section-differs', {'moltype': n, 'section': s, 'n_reference': len(a), 'n_other': len(c),
                                                         'first_difference': next(([x, y] for x, y in zip(a, c) if x != y), None)}), 0
                continue
            rest = list(c)
            unmatched = []
            for row in a:
                hit = None
                for j, row2 in enumerate(rest):
                    if row[1] == row2[1] and tokens_equal(row[0], row2[0], False):
                        hit = j
                        break
                if hit is None:
                    unmatched.append(row)
                else:
                    del rest[hit]
            leftovers = unmatched + rest
            real = []
            for toks, g in leftovers:
                # an elastic bond sitting on the upper cut-off may flip
                if s == 'bonds' and upper is not None and len(toks) >= 4 and num(toks[3]) is not None and abs(num(toks[3]) - upper) <= 2e-5:
                    admissible += 1
                else:
                    real.append(toks)
            if real:
                return ('itp/interactions', {'moltype': n, 'section': s, 'only_in_one_run': real[:5], 'n_reference': len(a), 'n_other': len(c)}), admissible
    return None, admissible


def compare_coordinates(ref, other, record):
    ra, oa = ref['pdb']['atoms'], other['pdb']['atoms']
    if len(ra) != len(oa):
        return ('pdb/atom-count', {'reference': len(ra), 'other': len(oa)})
    R = np.array(record['R']) if record and record.get('moved') else np.eye(3)
    t = np.array(record['t']) * 10 if record and record.get('moved') else np.zeros(3)
    worst = 0.0
    for a, c in zip(ra, oa):
        if (a['name'], a['resname'], a['resid'], a['chain']) != (c['name'], c['resname'], c['resid'], c['chain']):
            return ('pdb/record', {'reference': [a['name'], a['resname'], a['resid']], 'other': [c['name'], c['resname'], c['resid']]})
        want = R @ np.array([a['x'], a['y'], a['z']]) + t
        got = np.array([c['x'], c['y'], c['z']])
        if not (np.all(np.isfinite(want)) and np.all(np.isfinite(got))):
            if np.isnan(want).any() != np.isnan(got).any():
                return ('pdb/nan-mismatch', {})
            continue
        worst = max(worst, float(np.max(np.abs(want - got))))
    if worst > 2.5e-3:
        return ('pdb/coordinates-not-co-moving', {'worst_deviation_angstrom': worst})
    return None


BONDI_NM = {'H': 0.12, 'C': 0.17, 'N': 0.155, 'O': 0.152, 'S': 0.18, 'P': 0.18, 'F': 0.147}


def overbonded_hydrogen_residues(pdb_path):
    """Residues (chain, resid) of the input that hold a hydrogen lying within the documented distance criterion for a bond
    (1.2 x half the sum of the Bondi radii, the C10 rule) of two or more non-hydrogen atoms of its own residue.  Such a
    hydrogen gets one bond when its name is known to the force field (bonds by name) and two when it is not (bonds by
    distance); with two it no longer fits the residue template, is dropped and rebuilt without coordinates."""
    with open(pdb_path) as f:
        atoms = pdbread.read_pdb_text(f.read())['atoms']
    by_res = {}
    for a in atoms:
        by_res.setdefault((a['chain'], a['resid'], a['icode']), []).append(a)
    out = set()
    order = {key: i for i, key in enumerate(by_res)}
    for key, lst in by_res.items():
        def el(a):
            e = (a['element'] or '').capitalize()
            return e if e else ('H' if a['name'].lstrip('0123456789')[:1] == 'H' else a['name'].lstrip('0123456789')[:1])
        hs = [a for a in lst if el(a) == 'H']
        heavy = [a for a in lst if el(a) != 'H' and el(a) in BONDI_NM]
        for h in hs:
            n = 0
            for x in heavy:
                d = math.dist((h['x'], h['y'], h['z']), (x['x'], x['y'], x['z'])) / 10.0
                if d <= 1.2 * 0.5 * (BONDI_NM['H'] + BONDI_NM[el(x)]):
                    n += 1
            if n >= 2:
                out.add((key[0], key[1]))
                out.add(('#', order[key]))
    out.add(('#n', len(by_res)))
    return out


def moved_residues(ref, other):
    """-> (set of (chain, resid) of displaced particles, set of their residue ordinals in the file, number of residues)"""
    out, ordinals = set(), set()
    seen = {}
    prev = None
    for a, c in zip(ref['pdb']['atoms'], other['pdb']['atoms']):
        key = (a['chain'], a['resid'], a['resname'])
        if key != prev:
            seen[len(seen)] = key
            prev = key
        if max(abs(a[k] - c[k]) for k in 'xyz') > 2.5e-3:
            out.add((a['chain'], a['resid']))
            ordinals.add(len(seen) - 1)
    return out, ordinals, len(seen)


def nterminal_particles(out):
    """Per molecule of the written coordinate file: local (1-based) indices of the particles of the first residue of every chain
    stretch.  -> (set of global particle indices, {moltype: set of local indices})"""
    glob, local = set(), {}
    seq = [n for n, c in out['top']['molecules'] for _ in range(c)]
    for mi, idxs in enumerate(out['pdb']['molecules']):
        name = seq[mi] if mi < len(seq) else None
        prev_chain, first_res = object(), None
        for k, ai in enumerate(idxs, 1):
            a = out['pdb']['atoms'][ai]
            if a['chain'] != prev_chain:
                prev_chain, first_res = a['chain'], (a['resid'], a['resname'])
            if (a['resid'], a['resname']) == first_res:
                glob.add(ai)
                local.setdefault(name, set()).add(k)
            else:
                first_res = None
    return glob, local


def explained_by_neutral_nterminus(ref, other, options, elsewhere_explained=()):
    """Is every difference between the two runs confined to what follows from WHICH of the equivalent hydrogens of a charged
    N-terminus was discarded for the requested neutral terminus?  That is: same molecules, same atoms; only particles of
    N-terminal residues displaced, by at most 0.1 A; only bonds / constraints / angles / dihedrals that involve such a particle
    differ, and only in the value measured on the structure: a length by at most 0.005 nm (and, for distance-dependent force
    constants, by at most 5 %), a reference angle by at most 2 degrees."""
    opts = list(options)
    neutral = '-nt' in opts or any(o == '-nter' and opts[i + 1] == 'NH2-ter' for i, o in enumerate(opts[:-1]))
    if not neutral:
        return False, {}
    if ref['top']['molecules'] != other['top']['molecules'] or len(ref['pdb']['atoms']) != len(other['pdb']['atoms']):
        return False, {}
    glob, local = nterminal_particles(ref)
    displaced = []
    for i, (a, c) in enumerate(zip(ref['pdb']['atoms'], other['pdb']['atoms'])):
        if (a['name'], a['resname'], a['resid'], a['chain']) != (c['name'], c['resname'], c['resid'], c['chain']):
            return False, {}
        dev = max(abs(a[k] - c[k]) for k in 'xyz')
        if not dev <= 2.5e-3:
            if i in elsewhere_explained and i not in glob:
                continue        # a particle displaced by the other recorded mechanism (coordinates only)
            if i not in glob or not dev <= 0.1:
                return False, {}
            displaced.append([a['name'], a['resname'], a['resid'], round(dev, 4)])
    if not displaced:
        return False, {}
    nrows = 0
    for n, r in ref['itps'].items():
        o = other['itps'].get(n)
        if o is None or r['atoms'] != o['atoms'] or r['nrexcl'] != o['nrexcl']:
            return False, {}
        nt = {str(k) for k in local.get(n, ())}
        for sname in set(r['sections']) | set(o['sections']):
            a = [(list(t), g) for t, g, _ in r['sections'].get(sname, [])]
            c = [(list(t), g) for t, g, _ in o['sections'].get(sname, [])]
            rest = list(c)
            unmatched = []
            for row in a:
                hit = next((j for j, row2 in enumerate(rest) if row[1] == row2[1] and tokens_equal(row[0], row2[0], False)), None)
                if hit is None:
                    unmatched.append(row)
                else:
                    del rest[hit]
            if not unmatched and not rest:
                continue
            arity = {'bonds': 2, 'constraints': 2, 'angles': 3, 'dihedrals': 4}.get(sname)
            if arity is None or len(unmatched) != len(rest):
                return False, {}
            for toks, g in unmatched:
                if len(toks) < arity + 2 or not any(t in nt for t in toks[:arity]):
                    return False, {}
                hit = None
                for j, (t2, g2) in enumerate(rest):
                    if g2 != g or len(t2) != len(toks) or t2[:arity + 1] != toks[:arity + 1]:
                        continue
                    # the value taken from the structure: a length (nm) or an angle (degrees) measured on the displaced particle
                    la, lb = num(toks[arity + 1]), num(t2[arity + 1])
                    if la is None or lb is None or abs(la - lb) > (0.005 if arity == 2 else 2.0):
                        continue
                    ok = True
                    for x, y in zip(toks[arity + 2:], t2[arity + 2:]):
                        fx, fy = num(x), num(y)
                        if x != y and (arity != 2 or fx is None or fy is None or abs(fx - fy) > 0.05 * max(abs(fx), abs(fy))):
                            ok = False
                    if ok:
                        hit = j
                        break
                if hit is None:
                    return False, {}
                del rest[hit]
                nrows += 1
    return True, {'displaced_particles': displaced, 'interactions_with_changed_length': nrows}


def explained_by_single_residue_termini(ref, other):
    """Is the only difference the charge of particles of one-residue molecule types (both terminal modifications set the charge of the
    one backbone particle; which one is applied last follows the atom order)?"""
    if ref['top']['molecules'] != other['top']['molecules'] or len(ref['pdb']['atoms']) != len(other['pdb']['atoms']):
        return False, {}
    rows = []
    for n, r in ref['itps'].items():
        o = other['itps'].get(n)
        if o is None or len(r['atoms']) != len(o['atoms']) or r['nrexcl'] != o['nrexcl']:
            return False, {}
        single = len({row[2] for row in r['atoms']}) == 1
        for x, y in zip(r['atoms'], o['atoms']):
            if x == y:
                continue
            # the terminal modification mappings set the particle type and the charge (martini22: Qd +1 / Qa -1; martini3: Q5 +-1)
            if not single or len(x) != len(y) or len(x) < 7 or x[0] != y[0] or x[2:6] != y[2:6] or x[7:] != y[7:]:
                return False, {}
            fx, fy = num(x[6]), num(y[6])
            if fx is None or fy is None or {fx, fy} != {1.0, -1.0}:
                return False, {}
            rows.append([n, x[4], x[1], x[6], y[1], y[6]])
        for sname in set(r['sections']) | set(o['sections']):
            a = sorted((list(t), g) for t, g, _ in r['sections'].get(sname, []))
            c = sorted((list(t), g) for t, g, _ in o['sections'].get(sname, []))
            if len(a) != len(c) or any(g1 != g2 or not tokens_equal(t1, t2, False) for (t1, g1), (t2, g2) in zip(a, c)):
                return False, {}
    return bool(rows), {'particles': rows}


def cases(tier, seed):
    rnd = harness.rng('C11plan', seed)
    out = []
    if tier == 'quick':
        groups = 14          # 0-7: one ordinary group per input / option set; 8-13: special inputs and presentations
        inputs = INPUTS_QUICK
        npres = 3
    else:
        groups = 48
        inputs = INPUTS_QUICK + INPUTS_MORE
        npres = 7
    for g in range(groups):
        pdb = inputs[g % len(inputs)] if tier == 'quick' else rnd.choice(inputs)
        options = rnd.choice(OPTION_SETS)
        if tier == 'quick' and g == 7:
            options = OPTION_SETS[-2 + seed % 2]      # every quick run has one Go-model group
        if tier == 'quick' and g == 6:
            options = OPTION_SETS[-4 + seed % 2]      # ... and one with requested terminal modifications (caps / neutral)
        pres = rnd.sample(PRESENTATIONS, npres) if npres < len(PRESENTATIONS) else list(PRESENTATIONS)
        if not any(p[0] == 'hashseed' for p in pres):
            pres[-1] = ('hashseed', {})
        if tier == 'quick':
            # every quick group presents one atom order, one of (hydrogen names | rigid motion) and one hash seed
            pres = [('permute', {'pstyle': 'reverse' if g % 2 else 'random'}),
                    [('rename-h', {'hstyle': 'pdb-rotation'}), ('rigid', {}), ('rename-h', {'hstyle': 'arbitrary'}),
                     ('translate-file', {}), ('rename-h', {'hstyle': 'arbitrary-reversed'})][(g + seed) % 5],
                    ('hashseed', {})]
        if '-go' in options:
            # the Go contact map places a fixed-frame point set on every atom: it is translation- but not rotation-invariant by
            # construction, and the statement's option list does not include it; only translations are presented there
            pres = [('rigid', {'translate_only': True}) if p[0] == 'rigid' else p for p in pres]
        split = (tier == 'quick' and g == 0) or (tier != 'quick' and rnd.random() < 0.12)
        if split:
            # each atom next to the stretched bond (CB, the first side-chain atom beyond it) gets to be the first atom of the file
            pres = [('permute', {'pstyle': 'rotate', 'rotate_by': 4}), ('permute', {'pstyle': 'rotate', 'rotate_by': 5}), ('hashseed', {}),
                    ('reverse-file', {})] + \
                   ([('rigid', {})] if tier != 'quick' else [])
            options = rnd.choice([['-ff', 'martini3001', '-elastic', '-p', 'backbone'], ['-ff', 'martini22', '-noscfix']]) if tier != 'quick' \
                else ['-ff', 'martini3001', '-elastic', '-p', 'backbone']
            out.append({'pdb': INPUTS_QUICK[seed % 3], 'options': options, 'presentations': pres, 'pseed': rnd.randrange(10 ** 6),
                        'hashseed': rnd.choice([1, 2, 3, 12345]), 'split_first_residue': True})
        grp = {'pdb': pdb, 'options': options, 'presentations': pres, 'pseed': rnd.randrange(10 ** 6),
               'hashseed': rnd.choice([1, 2, 3, 12345])}
        if (tier == 'quick' and g == 8) or (tier != 'quick' and rnd.random() < 0.15):
            # the structure is handed over as a .gro file (no element column: the reader derives elements from the names it sees);
            # file-level presentations that edit PDB columns are replaced by the file-level hydrogen renamings
            grp['gro'] = True
            ren = [('rename-h-file', {'hstyle': 'pdb-rotation'}), ('rename-h-file', {'hstyle': 'arbitrary'})]
            grp['presentations'] = [p_ for p_ in pres if p_[0] not in ('translate-file', 'reverse-file', 'rename-h-file')][:max(1, len(pres) - 2)] + \
                (ren if tier != 'quick' else ren[:1])
        elif tier == 'quick' and g == 9:
            grp['presentations'] = pres[:2] + [('rename-h-file', {'hstyle': 'pdb-rotation'})]
        elif (tier == 'quick' and g == 11) or (tier != 'quick' and g % 12 == 5):
            # two bonded chains whose atom serial numbers restart with every chain (as many modelling tools write them), secondary
            # structure computed from the structure itself
            grp.update({'pdb': T1 + '3i40/3i40.pdb', 'options': ['-ff', 'martini3001', '-dssp', '-ignore', 'HOH'], 'restart_serials': True,
                        'presentations': [('permute', {'pstyle': 'random'}), ('reverse-file', {}), ('hashseed', {})]})
        elif (tier == 'quick' and g == 12) or (tier != 'quick' and g % 12 == 7):
            # a free amino acid: a chain of one residue, which is N-terminus and C-terminus at once (both terminal modifications meet on
            # its one backbone particle)
            grp.update({'pdb': 'verif:vf/gen/free_alanine.pdb', 'options': rnd.choice([['-ff', 'martini3001'], ['-ff', 'martini22']]),
                        'presentations': [('hashseed', {}), ('permute', {'pstyle': 'reverse'}), ('rigid', {}), ('hashseed', {'n': 2})]})
            grp['hashseed'] = rnd.choice([1, 2, 3, 4, 5])
        elif (tier == 'quick' and g == 13) or (tier != 'quick' and g % 24 == 11):
            # more than 500 backbone particles in ONE elastic network, moved far from the origin (two runs of a
            # 522-residue assembly)
            grp.update({'pdb': T0 + 'mini-protein1_betasheet/aa.pdb', 'copies': 18,
                        'options': ['-ff', 'martini3001', '-elastic', '-eunit', 'all'],
                        'presentations': [('translate-file', {'far': True}), ('hashseed', {})]})
        elif tier == 'quick' and g == 10:
            # a deposited structure with CONECT records between chains (disulfide bridges of insulin), its atom records reversed
            grp.update({'pdb': T1 + '3i40/3i40.pdb', 'options': ['-ff', 'martini3001', '-elastic', '-p', 'backbone'],
                        'presentations': [('reverse-file', {}), ('hashseed', {})]})
        out.append(grp)
    return out


def split_first_residue(src, dst):
    """The side chain of the first residue beyond CB is moved by 40 A along z, as when a molecule is split over a periodic
    boundary in a simulation frame: intra-residue bonds of that residue are far longer than any distance criterion, the residue
    holds together by its atom names only."""
    keep = {'N', 'CA', 'C', 'O', 'OXT', 'CB', 'H', 'HN', 'H1', 'H2', 'H3', 'HA', 'HA1', 'HA2', 'HA3', 'HB1', 'HB2', 'HB3', 'HB'}
    first = second = None
    out = []
    with open(src) as f:
        for l in f:
            if l.startswith(('ATOM', 'HETATM')):
                key = (l[21], l[22:27])
                first = first or key
                if key != first and second is None:
                    second = key
                if key == first and l[12:16].strip() not in keep:
                    l = l[:46] + '%8.3f' % (float(l[46:54]) + 40.0) + l[54:]
                elif key == second and l[12:16].strip() not in keep:
                    # the side chain of the second residue comes in two alternate locations, A listed first (raw crystal
                    # structures do): conformation A is the one to use, wherever its records stand in the file
                    out.append(l[:16] + 'A' + l[17:])
                    l = l[:16] + 'B' + l[17:30] + '%8.3f' % (float(l[30:38]) + 1.4) + l[38:]
            out.append(l)
    with open(dst, 'w') as f:
        f.writelines(out)


def restart_serials(src, dst):
    """The same file with atom serial numbers restarting at 1 in every chain; CONECT records (which name serials) are left out, the
    bridges between the chains are found by distance."""
    count = {}
    with open(src) as f, open(dst, 'w') as g:
        for l in f:
            if l.startswith('CONECT'):
                continue
            if l.startswith(('ATOM', 'HETATM')):
                count[l[21]] = count.get(l[21], 0) + 1
                l = l[:6] + '%5d' % count[l[21]] + l[11:]
            g.write(l)


def reverse_residues_in_file(src, dst):
    """The same file with the atom records of every residue listed in reverse order."""
    out, block, cur = [], [], None
    with open(src) as f:
        for l in f:
            if l.startswith(('ATOM', 'HETATM')):
                key = (l[21], l[22:27])
                if key != cur:
                    out += reversed(block)
                    block, cur = [], key
                block.append(l)
            else:
                out += reversed(block)
                block, cur = [], None
                out.append(l)
    out += reversed(block)
    with open(dst, 'w') as f:
        f.writelines(out)


def pdb_to_gro(src, dst):
    """The same structure as a GROMACS .gro file (own writer): same atoms in the same order, names, residue names and numbers;
    coordinates in nm with four decimals, i.e. exactly the thousandths of an Angstrom of the PDB file. A .gro file has no chain
    identifiers, no element column and no alternate locations (only the first location of an atom is kept)."""
    rows = []
    seen = set()
    with open(src) as f:
        for l in f:
            if l.startswith(('ATOM', 'HETATM')):
                if l[16] not in ' A':
                    continue
                rows.append((int(l[22:26]), l[17:21].strip(), l[12:16].strip(), [float(l[30 + 8 * i:38 + 8 * i]) / 10.0 for i in range(3)]))
            elif l.startswith('ENDMDL'):
                break
    with open(dst, 'w') as g:
        g.write('converted by the C11 check\n%d\n' % len(rows))
        for i, (resid, resname, name, xyz) in enumerate(rows, 1):
            g.write('%5d%-5s%5s%5d%9.4f%9.4f%9.4f\n' % (resid % 100000, resname[:5], name[:5], i % 100000, xyz[0], xyz[1], xyz[2]))
        g.write('  20.00000  20.00000  20.00000\n')


def _h_style(name, hstyle, counter):
    if hstyle == 'arbitrary':
        counter[0] += 1
        return 'HX%d' % counter[0]
    # old PDB style: the trailing digit is written first (HB1 -> 1HB, HH11 -> 1HH1)
    return name[-1] + name[:-1] if len(name) > 1 and name[-1].isdigit() else name


def rename_hydrogens_in_file(src, dst, hstyle):
    """Hydrogen names rewritten in the input FILE (the reader sees the new names; what it derives from a name, such as the element
    when the format has no element column, is derived from the new name)."""
    out = []
    changed = 0
    with open(src) as f:
        lines = f.readlines()
    if src.endswith('.gro'):
        natoms = int(lines[1])
        out = lines[:2]
        cur, counter = None, [0]
        for l in lines[2:2 + natoms]:
            name = l[10:15].strip()
            key = l[0:10]
            if key != cur:
                cur, counter = key, [0]
            stripped = name.lstrip('0123456789')
            if stripped[:1] == 'H':
                new = _h_style(name, hstyle, counter)
                changed += int(new != name)
                l = l[:10] + '%5s' % new[:5] + l[15:]
            out.append(l)
        out += lines[2 + natoms:]
    else:
        cur, counter = None, [0]
        for l in lines:
            if l.startswith(('ATOM', 'HETATM')):
                key = (l[21], l[22:27])
                if key != cur:
                    cur, counter = key, [0]
                name = l[12:16].strip()
                element = l[76:78].strip().upper() if len(l) > 77 else ''
                is_h = element == 'H' if element else name.lstrip('0123456789')[:1] == 'H'
                if is_h:
                    new = _h_style(name, hstyle, counter)
                    changed += int(new != name)
                    field = new[:4] if len(new) >= 4 or new[0].isdigit() else ' ' + new
                    l = l[:12] + '%-4s' % field + l[16:]
            out.append(l)
    with open(dst, 'w') as f:
        f.writelines(out)
    return changed


def run_case(params):
    b = harness.Batch()
    base = tempfile.mkdtemp(prefix='c11-')
    pdb = os.path.join(harness.VERIF, params['pdb'][6:]) if params['pdb'].startswith('verif:') else util.test_data_path(params['pdb'])
    if params.get('split_first_residue'):
        split_first_residue(pdb, os.path.join(base, 'split.pdb'))
        pdb = os.path.join(base, 'split.pdb')
    if params.get('copies'):
        # an assembly: n copies of the structure as chains A, B, C ... on a grid (one elastic network over all of them)
        src_lines = [l for l in open(pdb) if l.startswith('ATOM')]
        with open(os.path.join(base, 'assembly.pdb'), 'w') as g:
            serial = 0
            for c in range(params['copies']):
                dx, dy = 40.0 * (c % 5), 40.0 * (c // 5)
                for l in src_lines:
                    serial += 1
                    g.write('%s%5d%s%s%s%8.3f%8.3f%s' % (l[:6], serial % 100000, l[11:21], 'ABCDEFGHIJKLMNOPQRSTUVWXYZ'[c], l[22:30],
                                                        float(l[30:38]) + dx, float(l[38:46]) + dy, l[46:]))
                g.write('TER\n')
            g.write('END\n')
        pdb = os.path.join(base, 'assembly.pdb')
    if params.get('restart_serials'):
        restart_serials(pdb, os.path.join(base, 'restarted.pdb'))
        pdb = os.path.join(base, 'restarted.pdb')
    orig_pdb = pdb
    if params.get('gro'):
        # the same structure handed over as a .gro file: reference and presentations all start from it
        pdb_to_gro(pdb, os.path.join(base, 'input.gro'))
        pdb = os.path.join(base, 'input.gro')
    try:
        ref_dir = os.path.join(base, 'ref')
        r = run_cli(pdb, params['options'], 'reference', {}, 0, 0, ref_dir)
        b.total += 1
        if r.returncode != 0:
            # does the same, unchanged input convert under another hash seed?  Then the outcome depends on the hash seed.
            for hs in (6, 7, 8, 11, 13, 17):
                alt = os.path.join(base, 'ref-hs%d' % hs)
                r_alt = run_cli(pdb, params['options'], 'hashseed', {}, 0, hs, alt)
                b.total += 1
                if r_alt.returncode == 0:
                    b.hits += 1
                    b.violation('hashseed/run-failed', 'the pipeline fails under one hash seed and converts the same input under another',
                                {'input': params['pdb'], 'options': params['options'], 'fails_with_hashseed': 0, 'works_with_hashseed': hs,
                                 'returncode': r.returncode, 'stderr': r.stderr[-1200:]})
                    return b.result()
            # ... or in another presentation?  Then it fails on one presentation of a structure that it converts in another one.
            for (kind, extra) in params['presentations']:
                if kind not in ('permute', 'rename-h', 'rigid', 'reverse-file') or (kind == 'reverse-file' and params.get('gro')):
                    continue
                d = os.path.join(base, 'alt-' + kind + '-' + '-'.join(str(v) for v in extra.values()))
                if kind == 'reverse-file':
                    os.makedirs(d, exist_ok=True)
                    reverse_residues_in_file(pdb, os.path.join(d, 'reversed.pdb'))
                    r2 = run_cli(os.path.join(d, 'reversed.pdb'), params['options'], 'reference', {}, params['pseed'], 0, d)
                else:
                    r2 = run_cli(pdb, params['options'], kind, extra, params['pseed'], 0, d)
                b.total += 1
                if r2.returncode == 0:
                    b.hits += 1
                    b.violation('presentation/run-failed', 'the pipeline fails on one presentation of a structure it converts in another',
                                {'input': params['pdb'], 'options': params['options'], 'fails_as': 'given', 'converts_as': [kind, extra],
                                 'returncode': r.returncode, 'stderr': r.stderr[-1200:]})
                    return b.result()
            b.inconclusive('reference-run-failed')
            rec = b.result()
            rec['why_detail'] = r.stderr[-800:]
            return rec
        ref = load_outputs(ref_dir)
        upper = 0.9 if '-elastic' in params['options'] else None
        n_inter_res = sum(len(v) for it in ref['itps'].values() for s, v in it['sections'].items())
        b.hits += 1
        for (kind, extra) in params['presentations']:
            b.total += 1
            d = os.path.join(base, kind + '-' + '-'.join(str(v) for v in extra.values()))
            hs = params['hashseed'] + 5 * extra.get('n', 0) if kind == 'hashseed' else 0
            if kind == 'translate-file':
                # the input FILE is translated (by whole thousandths of an Angstrom, so no coordinate is rounded): x moves below
                # -100 A and y above 1000 A, where the coordinates fill all eight columns of their fields
                shift = (-150.0, 1000.0, 12.0) if not extra.get('far') else (5000.0, 4000.0, 6000.0)
                os.makedirs(d, exist_ok=True)
                moved_pdb = os.path.join(d, 'moved.pdb')
                with open(pdb) as f, open(moved_pdb, 'w') as g:
                    for l in f:
                        if l.startswith(('ATOM', 'HETATM')):
                            xyz = [float(l[30 + 8 * i:38 + 8 * i]) + shift[i] for i in range(3)]
                            l = l[:30] + ''.join('%8.3f' % v for v in xyz) + l[54:]
                        g.write(l)
                r2 = run_cli(moved_pdb, params['options'], 'reference', {}, params['pseed'], hs, d)
            elif kind == 'rename-h-file':
                os.makedirs(d, exist_ok=True)
                ren = os.path.join(d, 'renamed' + os.path.splitext(pdb)[1])
                n_renamed = rename_hydrogens_in_file(pdb, ren, extra.get('hstyle', 'pdb-rotation'))
                r2 = run_cli(ren, params['options'], 'reference', {}, params['pseed'], hs, d)
            elif kind == 'reverse-file':
                os.makedirs(d, exist_ok=True)
                rev_pdb = os.path.join(d, 'reversed.pdb')
                reverse_residues_in_file(pdb, rev_pdb)
                r2 = run_cli(rev_pdb, params['options'], 'reference', {}, params['pseed'], hs, d)
            else:
                r2 = run_cli(pdb, params['options'], kind, extra, params['pseed'], hs, d)
            desc = {'input': params['pdb'], 'options': params['options'], 'presentation': [kind, extra], 'pseed': params['pseed'],
                    'hashseed': hs}
            if r2.returncode != 0:
                b.hits += 1
                b.violation('presentation/run-failed', 'the pipeline fails on one presentation of a structure it converts in another',
                            dict(desc, returncode=r2.returncode, stderr=r2.stderr[-1200:]))
                continue
            other = load_outputs(d)
            record = (other['presentation']['records'] or [{}])[0]
            if kind == 'reverse-file':
                record = {'order_changed': True}
            if kind == 'rename-h-file':
                record = {'names_changed': n_renamed}
            if kind == 'translate-file':
                record = {'moved': True, 'R': [[1, 0, 0], [0, 1, 0], [0, 0, 1]], 't': [x / 10.0 for x in shift]}
            b.hits += 1
            p, adm = compare(ref, other, exact=(kind == 'hashseed'), upper=upper)
            if not p:
                p = compare_coordinates(ref, other, record)
            if p and kind in ('rename-h', 'rename-h-file') and p[0] == 'pdb/coordinates-not-co-moving':
                # classify by mechanism: are all displaced particles in residues holding a hydrogen that the distance rule
                # bonds to two heavy atoms?  (particle records carry the input residue numbers only with -resid input or
                # when numbering starts at 1; otherwise the residues simply do not match and the violation stays unclassified)
                moved, ordinals, nres = moved_residues(ref, other)
                suspects = overbonded_hydrogen_residues(orig_pdb)
                if ('#n', nres) in suspects:      # one output residue per input residue: match them by position in the file
                    explained = bool(ordinals) and all(('#', i) in suspects for i in ordinals)
                else:
                    explained = bool(moved) and all((c, r) in suspects or ('', r) in suspects for c, r in moved)
                suspects = sorted(x for x in suspects if x[0] not in ('#', '#n'))
                if explained:
                    b.violation('rename-h/hydrogen-within-bond-distance-of-two-heavy-atoms',
                                'a hydrogen whose name the force field does not know is bonded by distance to two heavy atoms, '
                                'dropped and rebuilt without coordinates: particle positions depend on hydrogen names',
                                dict(desc, detail=p[1], displaced_residues=sorted(moved), residues_with_such_hydrogens=sorted(suspects)))
                    continue
            if p and kind in ('permute', 'reverse-file'):
                ok_, info_ = explained_by_single_residue_termini(ref, other)
                if ok_ and not compare_coordinates(ref, other, record):
                    b.violation('permute/one-residue-chain-charge-follows-atom-order',
                                'a chain of one residue is both termini: the N-terminal and the C-terminal modification mapping both set the '
                                'charge of its one backbone particle, and which is applied last follows the order of the atoms',
                                dict(desc, detail=p[1], **info_))
                    continue
            if p and kind in ('rename-h', 'rename-h-file'):
                # particles displaced by the first recorded mechanism (a hydrogen within bond distance of two heavy atoms): they may
                # occur next to the N-terminal one in the same run
                moved, ordinals, nres = moved_residues(ref, other)
                suspects = overbonded_hydrogen_residues(orig_pdb)
                by_ordinal = ('#n', nres) in suspects
                elsewhere, seen_res, prev_ = set(), -1, None
                for i_, a_ in enumerate(ref['pdb']['atoms']):
                    key_ = (a_['chain'], a_['resid'], a_['resname'])
                    if key_ != prev_:
                        seen_res, prev_ = seen_res + 1, key_
                    if (by_ordinal and ('#', seen_res) in suspects) or \
                            (not by_ordinal and ((a_['chain'], a_['resid']) in suspects or ('', a_['resid']) in suspects)):
                        elsewhere.add(i_)
                ok_, info_ = explained_by_neutral_nterminus(ref, other, params['options'], elsewhere)
                if ok_:
                    glob_, _ = nterminal_particles(ref)
                    both = [i_ for i_ in elsewhere - glob_
                            if max(abs(ref['pdb']['atoms'][i_][k] - other['pdb']['atoms'][i_][k]) for k in 'xyz') > 2.5e-3]
                    if both:
                        b.violation('rename-h/hydrogen-within-bond-distance-of-two-heavy-atoms',
                                    'a hydrogen whose name the force field does not know is bonded by distance to two heavy atoms, '
                                    'dropped and rebuilt without coordinates: particle positions depend on hydrogen names',
                                    dict(desc, displaced_particles=len(both), together_with='the neutral N-terminus finding'))
                    b.violation('rename-h/neutral-n-terminus-discards-a-name-dependent-hydrogen',
                                'a neutral N-terminus is requested for a structure whose N-terminus carries three hydrogens: which of the '
                                'three equivalent hydrogens is discarded follows their names, and the terminal particle moves with it',
                                dict(desc, detail=p[1], **info_))
                    continue
            if p:
                b.violation('%s/%s' % (kind, p[0]), 'topology depends on the presentation (%s: %s)' % (kind, p[0]), dict(desc, detail=p[1]))
                continue
            changed = record.get('order_changed') or record.get('names_changed') or record.get('moved') or kind == 'hashseed'
            b.feat({'opt' + o: 1 for o in params['options'] if o.startswith('-') and not o[1:2].isdigit()})
            b.feat('first_residue_split_over_periodic_boundary', int(bool(params.get('split_first_residue'))))
            b.feat({'pairs_compared': 1, 'pres_' + kind: 1, 'admissible_threshold_differences': adm,
                    'presentation_really_changed': int(bool(changed))})
            if changed and n_inter_res:
                b.nontrivial(desc, dict(desc, wrapper_record={k: v for k, v in record.items() if k not in ('R', 't')},
                                        interactions_in_reference=n_inter_res))
    finally:
        shutil.rmtree(base, ignore_errors=True)
    return b.result()
