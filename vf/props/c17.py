"""C17 - per-residue annotations land on the intended residues and translate correctly.

Events : node attributes of every atom after AnnotateResidues.run_system (and exceptions); the string returned
         by convert_dssp_to_martini; 'cgsecstruct' of every atom after AnnotateMartiniSecondaryStructures.
Oracle : per-residue reference assignment (residues ordered by lowest node key, selected molecules in system
         order, documented repetition rules); fixed class table + helix run rule table.
"""
import copy
import itertools
import os
import shutil
import tempfile

from .. import harness, util

PROPERTY = 'C17'
LEVEL = 'exploration'
RULE = ('(a) systems of 1-6 molecules, each selected or not in every order (selection by a meta flag or by the '
        'library\'s is_protein), 1-8 residues of 1-3 atoms with shuffled/interleaved node keys so that residue order '
        '(lowest key) differs from insertion and resid order; sequences as str or list whose length is the total, '
        'one molecule\'s length, 1, 0 or a mismatch. Non-trivial = at least one unselected molecule placed before a '
        'selected one and >= 2 selected molecules. (b) DSSP strings: every string over the 11-letter alphabet up to '
        'length 4 (quick) / 6 (thorough) and random helix-rich strings up to length 60, also pushed through '
        'AnnotateMartiniSecondaryStructures on a molecule. Non-trivial string = contains >= 2 helical runs of '
        'different length class. distinct = distinct system shapes / strings. Also: residues sharing a number (insertion codes, or told apart by name only); a second sequence applied to the same molecule objects after residue identities were edited in place; (c) AnnotateDSSP through mdtraj on molecules whose residues are stored in ascending, rotated, reversed or shuffled order, with mdtraj.compute_dssp replaced by a function that labels each residue of the file it receives with a letter derived from its own number.')
ASSUMPTIONS = ['residue order of a molecule = ascending lowest node key (the library\'s documented enumeration)',
               'an empty sequence with no selected molecule is a no-op; every other length mismatch must raise ValueError']
MIN_HITS = {'quick': 20000, 'thorough': 1500000}
CASE_TIMEOUT = 900

ALPHABET = '123HGIBETSC'
TABLE = {'B': 'E', 'E': 'E', 'T': 'T', 'S': 'S', 'C': 'C'}
HELIX = set('123HGI')
PROTEIN = ['ALA', 'GLY', 'LYS', 'SER', 'TRP', 'GLU']


def ref_dssp(seq):
    out = []
    i = 0
    n = len(seq)
    while i < n:
        c = seq[i]
        if c not in HELIX:
            out.append(TABLE[c])
            i += 1
            continue
        j = i
        while j < n and seq[j] in HELIX:
            j += 1
        L = j - i
        if L <= 4:
            out.append('3' * L)
        elif L == 5:
            out.append('13332')
        elif L == 6:
            out.append('113322')
        elif L == 7:
            out.append('1113222')
        else:
            out.append('1111' + 'H' * (L - 8) + '2222')
        i = j
    return ''.join(out)


def helix_classes(seq):
    runs = [len(list(g)) for k, g in itertools.groupby(seq, key=lambda c: c in HELIX) if k]
    return {min(L, 8) for L in runs}


# ------------------------------------------------------------------ (a) AnnotateResidues
def gen_system(rnd):
    nmol = rnd.randint(1, 6)
    equal = rnd.random() < 0.45
    base_len = rnd.randint(1, 8)
    selector = rnd.choice(['meta', 'meta', 'protein'])
    mols = []
    for m in range(nmol):
        nres = base_len if equal else rnd.randint(1, 8)
        sel = rnd.random() < 0.6
        sizes = [rnd.randint(1, 3) for _ in range(nres)]
        natoms = sum(sizes)
        keys = rnd.sample(range(natoms * 4), natoms)
        mode = rnd.choice(['sorted', 'shuffled', 'interleaved'])
        if mode == 'sorted':
            keys.sort()
        resids = rnd.sample(range(-3, 60), nres)
        if rnd.random() < 0.5:
            resids.sort()
        # residues that share their number with the previous one: told apart by an insertion code (52, 52A) or by the name only
        icodes = [None] * nres
        same_number = []
        for r in range(1, nres):
            if rnd.random() < 0.15:
                resids[r] = resids[r - 1]
                same_number.append(r)
                if rnd.random() < 0.7:
                    icodes[r] = 'ABCDEFGHIJ'[r]
        atoms = []  # (key, residue index)
        slots = [r for r, s in enumerate(sizes) for _ in range(s)]
        if mode == 'interleaved':
            rnd.shuffle(slots)
        for k, r in zip(keys, slots):
            atoms.append((k, r))
        if rnd.random() < 0.5:
            rnd.shuffle(atoms)  # insertion order
        resnames = [rnd.choice(PROTEIN) if (sel or selector == 'meta') else 'LIG' for _ in range(nres)]
        if selector == 'protein' and not sel:
            resnames = ['LIG'] * nres
        for r in same_number:
            if icodes[r] is None:
                # told apart by the residue name only: make sure it differs from every residue carrying the same number
                taken = {resnames[q] for q in range(nres) if q != r and resids[q] == resids[r]}
                resnames[r] = next(n_ for n_ in (PROTEIN if resnames[r] != 'LIG' else ['LIG', 'LI2', 'LI3', 'LI4', 'LI5', 'LI6', 'LI7', 'LI8', 'LI9'])
                                   + ['XX%d' % r] if n_ not in taken)
        mols.append({'sel': sel, 'atoms': atoms, 'resids': resids, 'resnames': resnames, 'icodes': icodes,
                     'chain': rnd.choice('AB'), 'nres': nres})
    sel_lengths = [m['nres'] for m in mols if m['sel']]
    total = sum(sel_lengths)
    r = rnd.random()
    if r < 0.45:
        L = total
    elif r < 0.6 and sel_lengths:
        L = sel_lengths[0]
    elif r < 0.7:
        L = 1
    elif r < 0.75:
        L = 0
    else:
        L = max(0, total + rnd.choice([-2, -1, 1, 2, 3]))
    letters = 'CHETSB123F'
    seq = [rnd.choice(letters) + (str(i) if rnd.random() < 0.0 else '') for i in range(L)]
    # make elements distinguishable where possible: use position-tagged values in list form
    as_str = rnd.random() < 0.5
    if not as_str:
        seq = ['%s%d' % (c, i) for i, c in enumerate(seq)]
    return {'mols': mols, 'seq': ''.join(seq) if as_str else seq, 'selector': selector,
            'attribute': rnd.choice(['secstruct', 'aasecstruct', 'custom'])}


def build_system(case):
    from vermouth.forcefield import ForceField
    from vermouth.molecule import Molecule
    from vermouth.system import System
    ff = ForceField(name='verif_c17')
    system = System(force_field=ff)
    for m in case['mols']:
        mol = Molecule(force_field=ff)
        mol.meta['sel'] = m['sel']
        for n, (k, r) in enumerate(m['atoms']):
            extra = {'insertion_code': m['icodes'][r]} if m.get('icodes') and m['icodes'][r] else {}
            mol.add_node(k, atomname='A%d' % n, resid=m['resids'][r], resname=m['resnames'][r], chain=m['chain'],
                         secstruct='old', custom='old', **extra)
        system.add_molecule(mol)
    return system


def ref_assign(case):
    """-> ('error', None) | ('ok', {(mol index, node key): value}) for selected molecules."""
    seq = list(case['seq'])
    sel = [(i, m) for i, m in enumerate(case['mols']) if m['sel']]
    lengths = [m['nres'] for _, m in sel]
    total = sum(lengths)
    if not sel:
        return ('error', None) if seq else ('ok', {})
    if len(seq) == total:
        full = seq
    elif len(set(lengths)) == 1 and len(seq) == lengths[0]:
        full = seq * len(sel)
    elif len(seq) == 1:
        full = seq * total
    else:
        return ('error', None)
    out = {}
    pos = 0
    for i, m in sel:
        lowest = {}
        for k, r in m['atoms']:
            lowest[r] = min(lowest.get(r, k), k)
        order = sorted(lowest, key=lowest.get)
        rank = {r: j for j, r in enumerate(order)}
        for k, r in m['atoms']:
            out[(i, k)] = full[pos + rank[r]]
        pos += m['nres']
    return ('ok', out)


def check_system(case):
    from vermouth.dssp.dssp import AnnotateResidues
    from vermouth.selectors import is_protein
    system = build_system(case)
    attr = case['attribute']
    selector = (lambda mol: mol.meta['sel']) if case['selector'] == 'meta' else is_protein
    before = [{k: dict(d) for k, d in mol.nodes(data=True)} for mol in system.molecules]
    status, exp = ref_assign(case)
    proc = AnnotateResidues(attr, case['seq'], molecule_selector=selector)
    if len(case['seq']) >= 1 and int(harness.h([case['seq'], len(case['mols'])]), 16) % 5 < 2:
        # the processor object has been used before, on a system of two selected molecules as long as the sequence each (the
        # documented repeat), and is now reused: it must treat the new system exactly as a fresh object would
        from vermouth.forcefield import ForceField
        from vermouth.molecule import Molecule
        from vermouth.system import System
        ff0 = ForceField(name='verif_c17_primer')
        primer = System(force_field=ff0)
        for c_ in 'PQ':
            m0 = Molecule(force_field=ff0)
            m0.meta['sel'] = True
            for j in range(len(case['seq'])):
                m0.add_node(j, atomname='BB', resid=j + 1, resname='ALA', chain=c_)
            primer.add_molecule(m0)
        try:
            proc.run_system(primer)
        except Exception as e:
            return ('valid-sequence-rejected', {'raised': type(e).__name__, 'where': 'first use of the processor (repeat over two molecules)'}), \
                {}, False, False
    try:
        proc.run_system(system)
        raised = None
    except ValueError as e:
        raised = 'ValueError'
    except Exception as e:  # any other exception type is also not "an error about the mismatch"
        raised = type(e).__name__
    mols = case['mols']
    sel_idx = [i for i, m in enumerate(mols) if m['sel']]
    unsel_before_sel = bool(sel_idx) and any((not m['sel']) for m in mols[:max(sel_idx)])
    feats = {'unselected_before_selected': int(unsel_before_sel), 'expected_error': int(status == 'error'),
             'sequence_repeated': int(status == 'ok' and len(case['seq']) not in (0, sum(mols[i]['nres'] for i in sel_idx)))}
    nontrivial = unsel_before_sel and len(sel_idx) >= 2 and status == 'ok'
    if status == 'error':
        if raised != 'ValueError':
            return ('mismatch-not-rejected', {'raised': raised}), feats, nontrivial, unsel_before_sel
        return None, feats, nontrivial, unsel_before_sel
    if raised:
        return ('valid-sequence-rejected', {'raised': raised}), feats, nontrivial, unsel_before_sel
    wrong = []
    for i, mol in enumerate(system.molecules):
        for k, d in mol.nodes(data=True):
            if mols[i]['sel']:
                want = exp[(i, k)]
                if d.get(attr) != want:
                    wrong.append((i, k, d.get(attr), want))
                rest_now = {a: v for a, v in d.items() if a != attr}
                rest_before = {a: v for a, v in before[i][k].items() if a != attr}
                if rest_now != rest_before:
                    wrong.append((i, k, 'other-attribute-changed'))
            elif d != before[i][k]:
                wrong.append((i, k, 'unselected-touched', d.get(attr)))
    if wrong:
        return ('wrong-assignment', {'wrong': wrong[:6], 'n_wrong': len(wrong)}), feats, nontrivial, unsel_before_sel
    if sel_idx and int(harness.h([case['seq'], 'again']), 16) % 3 == 0:
        # second round on the SAME molecule objects: residue identities are edited in place (the node set does not change), then a
        # fresh sequence is applied; it must land on the residues as they are now
        import random
        r_ = random.Random(int(harness.h([case['seq'], len(mols), 'edit']), 16))
        case2 = copy.deepcopy(case)
        mi = r_.choice(sel_idx)
        m2 = case2['mols'][mi]
        mol = system.molecules[mi]
        op = r_.choice(['move-atom', 'move-atom', 'renumber', 'split'])
        if op == 'move-atom' and m2['nres'] > 1:
            ai = r_.randrange(len(m2['atoms']))
            k, r0 = m2['atoms'][ai]
            r1 = r_.choice([r for r in range(m2['nres']) if r != r0])
            m2['atoms'][ai] = (k, r1)
        elif op == 'split' and any(sum(1 for _, r in m2['atoms'] if r == q) > 1 for q in range(m2['nres'])):
            q = r_.choice([q for q in range(m2['nres']) if sum(1 for _, r in m2['atoms'] if r == q) > 1])
            ai = r_.choice([i for i, (_, r) in enumerate(m2['atoms']) if r == q])
            m2['resids'].append(max(m2['resids']) + 7)
            m2['resnames'].append(m2['resnames'][q])
            m2['icodes'].append(None)
            m2['atoms'][ai] = (m2['atoms'][ai][0], len(m2['resids']) - 1)
        else:
            op = 'renumber'
            m2['resids'] = [x + 100 for x in m2['resids']]
            m2['resids'].reverse()
            m2['resnames'].reverse()
            m2['icodes'].reverse()
            m2['atoms'] = [(k, len(m2['resids']) - 1 - r) for k, r in m2['atoms']]
        # residues that lost every atom disappear
        used = sorted({r for _, r in m2['atoms']})
        remap = {r: j for j, r in enumerate(used)}
        m2['atoms'] = [(k, remap[r]) for k, r in m2['atoms']]
        for f in ('resids', 'resnames', 'icodes'):
            m2[f] = [m2[f][r] for r in used]
        m2['nres'] = len(used)
        for k, r in m2['atoms']:
            d = mol.nodes[k]
            d['resid'], d['resname'] = m2['resids'][r], m2['resnames'][r]
            d.pop('insertion_code', None)
            if m2['icodes'][r]:
                d['insertion_code'] = m2['icodes'][r]
        total2 = sum(case2['mols'][i]['nres'] for i in sel_idx)
        case2['seq'] = ['s%d' % j for j in range(total2)]
        status2, exp2 = ref_assign(case2)
        feats['second_round_after_' + op] = 1
        try:
            AnnotateResidues(attr, case2['seq'], molecule_selector=selector).run_system(system)
        except Exception as e:
            if not harness.from_repo(e):
                raise
            return ('history/valid-sequence-rejected-after-edit', {'raised': repr(e), 'edit': op, 'residues_now': total2}), feats, nontrivial, unsel_before_sel
        wrong = [(i, k, d.get(attr), exp2[(i, k)]) for i, mol_ in enumerate(system.molecules) if mols[i]['sel']
                 for k, d in mol_.nodes(data=True) if d.get(attr) != exp2[(i, k)]]
        if wrong:
            return ('history/wrong-assignment-after-edit', {'wrong': wrong[:6], 'n_wrong': len(wrong), 'edit': op}), feats, nontrivial, unsel_before_sel
    return None, feats, nontrivial, unsel_before_sel


# ------------------------------------------------------------------ (b) DSSP translation
def through_molecule(seq, rnd):
    """Push a DSSP string through AnnotateMartiniSecondaryStructures on a molecule with shuffled keys."""
    from vermouth.dssp.dssp import AnnotateMartiniSecondaryStructures
    from vermouth.forcefield import ForceField
    from vermouth.molecule import Molecule
    mol = Molecule(force_field=ForceField(name='verif_c17b'))
    n = len(seq)
    lows = sorted(rnd.sample(range(5 * n + 5), n))
    want = {}
    order = list(range(n))
    rnd.shuffle(order)
    nxt = 10 * n + 10
    for r in order:
        mol.add_node(lows[r], atomname='BB', resid=n - r, resname='ALA', chain='A', aasecstruct=seq[r])
        want[lows[r]] = r
        if rnd.random() < 0.5:
            mol.add_node(nxt, atomname='SC1', resid=n - r, resname='ALA', chain='A', aasecstruct=seq[r])
            want[nxt] = r
            nxt += 1
    AnnotateMartiniSecondaryStructures.run_molecule(mol)
    return {k: mol.nodes[k].get('cgsecstruct') for k in mol.nodes}, want


# ------------------------------------------------------------------ (c) secondary structure computed from the structure (mdtraj path)
def check_mdtraj_alignment(rnd, b):
    """AnnotateDSSP without an executable writes the structure to a temporary PDB file, has mdtraj compute the secondary structure
    and assigns the result residue by residue.  mdtraj.compute_dssp is replaced (it is looked up at call time) by a function that
    labels every residue of the file it is given with a letter derived from that residue's own number; everything else is real
    (copying, ordering, the PDB writer, mdtraj's PDB reader, the assignment).  Each atom must end up with the letter of its own
    residue, whatever the order in which the residues are stored.  -> problem | None | 'skip'"""
    try:
        import mdtraj
    except ImportError:
        return 'skip'
    import numpy as np
    import vermouth.dssp.dssp as D
    from vermouth.forcefield import ForceField
    from vermouth.molecule import Molecule
    from vermouth.system import System
    letters = 'HETSCGB'
    ff = ForceField(name='verif_c17_md')
    system = System(force_field=ff)
    nmol = rnd.randint(1, 3)
    want = {}
    key = 0
    for mi in range(nmol):
        mol = Molecule(force_field=ff)
        nres = rnd.randint(2, 9)
        start = rnd.choice([1, 1, 5, 30])
        resids = list(range(start, start + nres))
        mode = rnd.choice(['ascending', 'rotated', 'reversed', 'shuffled', 'ascending'])
        if mode == 'rotated':
            k_ = rnd.randint(1, nres - 1)
            resids = resids[k_:] + resids[:k_]
        elif mode == 'reversed':
            resids.reverse()
        elif mode == 'shuffled':
            rnd.shuffle(resids)
        chain = 'ABC'[mi]
        for r in resids:
            base = np.array([0.38 * r, 0.5 * mi, 0.0])
            for j, (an, el) in enumerate([('N', 'N'), ('CA', 'C'), ('C', 'C'), ('O', 'O')]):
                mol.add_node(key, atomname=an, element=el, resname='ALA', resid=r, chain=chain, atomid=key + 1,
                             position=base + np.array([0.1 * j, 0.05 * (j % 2), 0.02 * j]))
                want[(mi, key)] = letters[r % len(letters)]
                key += 1
        system.add_molecule(mol)
    orig = mdtraj.compute_dssp

    def fake(struct, simplified=False):
        row = [letters[res.resSeq % len(letters)] for res in struct.topology.residues]
        return np.array([row])
    work = tempfile.mkdtemp(prefix='c17md-')
    cwd = os.getcwd()
    mdtraj.compute_dssp = fake
    try:
        os.chdir(work)
        D.AnnotateDSSP(executable=None).run_system(system)
    finally:
        mdtraj.compute_dssp = orig
        os.chdir(cwd)
        shutil.rmtree(work, ignore_errors=True)
    b.hits += 1
    wrong = [(mi, k, d.get('aasecstruct'), want[(mi, k)], d['resid']) for mi, mol in enumerate(system.molecules) for k, d in mol.nodes(data=True)
             if d.get('aasecstruct') != want[(mi, k)]]
    if wrong:
        return ('dssp-from-structure/letters-on-wrong-residues',
                {'wrong_atoms': len(wrong), 'first': [list(map(str, w)) for w in wrong[:4]],
                 'residue_order_per_molecule': [[d['resid'] for k, d in list(mol.nodes(data=True))[::4]] for mol in system.molecules]})
    return None


def cases(tier, seed):
    out = []
    nb, per = (16, 600) if tier == 'quick' else (64, 6000)
    out += [{'kind': 'annot', 'seed': seed, 'batch': b, 'n': per} for b in range(nb)]
    maxlen = 4 if tier == 'quick' else 6
    nparts = 4 if tier == 'quick' else 32
    out += [{'kind': 'dssp-exh', 'maxlen': maxlen, 'part': p, 'nparts': nparts} for p in range(nparts)]
    nb2, per2 = (12, 700) if tier == 'quick' else (32, 8000)
    out += [{'kind': 'dssp-rand', 'seed': seed, 'batch': b, 'n': per2} for b in range(nb2)]
    return out


def run_case(params):
    from vermouth.dssp.dssp import convert_dssp_to_martini
    hits = 0
    feats = {}
    nth = set()
    sample = None

    def bump(f):
        for k, v in f.items():
            if v:
                feats[k] = feats.get(k, 0) + v

    if params['kind'] == 'annot':
        rnd = harness.rng('C17a', params['seed'], params['batch'])
        bb = harness.Batch()
        for j in range(max(3, params['n'] // 40)):
            pm = check_mdtraj_alignment(rnd, bb)
            if pm == 'skip':
                feats['mdtraj_not_installed'] = 1
                break
            hits += 1
            feats['dssp_from_structure_cases'] = feats.get('dssp_from_structure_cases', 0) + 1
            if pm:
                return {'verdict': 'violated', 'key': pm[0], 'what': 'secondary structure computed from the structure lands on other residues',
                        'witness': {'detail': pm[1]}, 'hits': hits, 'features': feats, 'nontrivial': True, 'hash': harness.h(pm[1])}
        for j in range(params['n']):
            case = gen_system(rnd)
            problem, f, nontrivial, ubs = check_system(case)
            hits += 1
            bump(f)
            shape = [[m['sel'], m['nres']] for m in case['mols']] + [len(case['seq'])]
            if nontrivial:
                nth.add(harness.h(shape))
                if sample is None:
                    sample = {'molecules(selected,nres)': shape[:-1], 'sequence': case['seq'], 'selector': case['selector']}
            if problem:
                key = 'annotate/' + problem[0] + ('/unselected-before-selected' if ubs else '')
                return {'verdict': 'violated', 'key': key,
                        'what': 'AnnotateResidues: %s (system with%s unselected molecule ahead of a selected one)' %
                                (problem[0], '' if ubs else 'out'),
                        'witness': {'case': case, 'detail': problem[1]}, 'hits': hits, 'features': feats,
                        'nontrivial': True, 'hash': harness.h(case)}
    else:
        if params['kind'] == 'dssp-exh':
            def gen():
                i = 0
                for L in range(0, params['maxlen'] + 1):
                    for tup in itertools.product(ALPHABET, repeat=L):
                        i += 1
                        if i % params['nparts'] == params['part']:
                            yield ''.join(tup), False
            it = gen()
        else:
            rnd = harness.rng('C17b', params['seed'], params['batch'])

            def gen():
                for _ in range(params['n']):
                    L = rnd.randint(1, 60)
                    s = []
                    while len(s) < L:
                        if rnd.random() < 0.55:
                            s.extend(rnd.choice('HGI123') if rnd.random() < 0.3 else 'H'
                                     for _ in range(rnd.choice([1, 2, 3, 4, 5, 6, 7, 8, 9, 10, 14])))
                        else:
                            s.extend(rnd.choice('BETSC') for _ in range(rnd.randint(1, 3)))
                    yield ''.join(s[:L]), rnd.random() < 0.25
            it = gen()
        for seq, via_mol in it:
            want = ref_dssp(seq)
            got = convert_dssp_to_martini(seq)
            hits += 1
            if got != want or len(got) != len(seq):
                return {'verdict': 'violated', 'key': 'dssp/translation',
                        'what': 'convert_dssp_to_martini(%r) = %r, rule table gives %r' % (seq, got, want),
                        'witness': {'dssp': seq, 'observed': got, 'expected': want}, 'hits': hits,
                        'features': feats, 'nontrivial': True, 'hash': harness.h(seq)}
            if via_mol and seq:
                obs, res_of = through_molecule(seq, rnd)
                hits += 1
                feats['through_molecule'] = feats.get('through_molecule', 0) + 1
                bad = [(k, obs[k], want[res_of[k]]) for k in obs if obs[k] != want[res_of[k]]]
                if bad:
                    return {'verdict': 'violated', 'key': 'dssp/annotation',
                            'what': 'AnnotateMartiniSecondaryStructures put classes on the wrong residues',
                            'witness': {'dssp': seq, 'bad': bad[:6]}, 'hits': hits, 'features': feats,
                            'nontrivial': True, 'hash': harness.h(seq)}
            hc = helix_classes(seq)
            for c in hc:
                feats['helix_run_len_%s' % (c if c < 8 else '8plus')] = feats.get('helix_run_len_%s' % (c if c < 8 else '8plus'), 0) + 1
            if len(hc) >= 2:
                nth.add(seq)
                if sample is None:
                    sample = {'dssp': seq, 'martini': got}
        nth = {harness.h(s) for s in nth}
    return {'verdict': 'held', 'hits': hits, 'features': feats, 'nontrivial': bool(nth), 'nt_hashes': sorted(nth),
            'sample': sample}
