"""C13 - force-field, topology and mapping files load to exactly what they declare.

Events : ForceField contents after read_ff / read_itp; mapping collections after read_backmapping_file; exceptions.
Oracle : the abstract description from which the text was rendered (the expected objects are derived from it in
         plain data), compared structurally: counts and order first (each declared item exactly once), then contents.
         Fault injection on well-formed text must raise.
"""
import json

from .. import harness, util

PROPERTY = 'C13'
LEVEL = 'exploration'
RULE = ('Generated files rendered from an abstract description with equivalent spellings varied (+X vs X {"order": 1}, '
        'index vs name references in blocks, optional "--", attribute tokens glued or spaced, comments and blank lines, '
        'macros vs literals, repeated subsections, blocks / links / modifications interleaved in any order): (a) .ff files '
        'with variables, macros, 0-4 blocks, 0-5 links, 0-3 modifications; (b) .itp files with 1-3 moleculetypes, '
        'interactions by index, #ifdef/#ifndef/#else blocks; (c) backward-style .map files with multiplicities and "!" '
        'markers, and new-style .mapping files with 1-3 block mappings over 1-2 from/to residues, shorthand identifiers, explicit '
        'and implicit identifiers, integer weights. (d) one fault per file (unknown section, undefined block atom, duplicate block atom, unbalanced brace, '
        'prefix/order contradiction, wrong atom count closed by "--" or too short a line, index beyond the atoms of an '
        'itp molecule) injected at a random eligible position must raise. Non-trivial .ff = >= 2 links with >= 1 top-level '
        'section between/after them; non-trivial .itp = >= 2 moleculetypes with a later one longer than the first. '
        'distinct = distinct file texts. Also: new-style .mapping files; prefix/order contradictions drawn from {0, right+-1, -right, 2*right}; #meta keys that single lines set as well.')
ASSUMPTIONS = ['#meta is only generated in the last subsection of its name within a block/link (the documentation leaves '
               'its scope over later same-named subsections open)',
               'the wrong-atom-count fault is only injected in the two unambiguous forms',
               'names of atoms and blocks contain no whitespace or special characters; macro names contain none of the documented terminators (blank, braces, quote, $) nor a colon']
MIN_HITS = {'quick': 3000, 'thorough': 120000}
CASE_TIMEOUT = 900

NATOMS = {'bonds': 2, 'angles': 3, 'dihedrals': 4, 'constraints': 2, 'pairs': 2, 'exclusions': None, 'virtual_sites2': 3,
          'position_restraints': 1, 'pairs_nb': 2, 'virtual_sites3': 4, 'distance_restraints': 2, 'SETTLE': 1,
          'orientation_restraints': 2, 'dihedral_restraints': 4}
EDGE_TYPES = ('bonds', 'angles', 'dihedrals', 'cmap', 'constraints')


# =============================================================== (a) .ff
def gen_ff(rnd):
    d = {'variables': {}, 'macros': {}, 'items': []}
    if rnd.random() < 0.5:
        d['variables'] = {'elastic_network_bond_type': rnd.choice([1, 6]), 'center_weight': 'mass'} if rnd.random() < 0.5 else {'regular': 0.47}
    if rnd.random() < 0.6:
        # a macro name runs up to the next blank, brace, quote or '$': '-', '.', '+' and '/' are part of it; a shorter macro that is
        # a prefix of another one is defined as well
        btn = rnd.choice(['bb_type', 'bb_type', 'bb-type', 't.bb'])
        fcn = rnd.choice(['fc', 'fc', 'k-stiff', 'fc.bb', 'k+', 'f/c'])
        d['macros'] = {btn: rnd.choice(['P2', 'Q5']), fcn: str(rnd.choice([1250, 5000]))}
        if fcn[0] == 'k':
            d['macros']['k'] = '1000'
        if btn == 't.bb':
            d['macros']['t'] = 'C1'
        d['_btn'], d['_fcn'] = btn, fcn
    items = []
    used_block = set()
    for _ in range(rnd.randint(0, 4)):
        name = rnd.choice(['ALA', 'GLY', 'LYS', 'W', 'PO4X', 'ION'])
        if name in used_block:
            continue
        used_block.add(name)
        nat = rnd.randint(1, 5)
        atoms = []
        for i in range(nat):
            a = {'name': ['BB', 'SC1', 'SC2', 'SC3', 'SC4'][i], 'atype': rnd.choice(['P2', 'C1', 'Qd', '$' + d['_btn']]) if d['macros'] else rnd.choice(['P2', 'C1', 'Qd']),
                 'resid': 1, 'resname': name, 'cg': i + 1}
            r = rnd.random()
            if r < 0.7:
                a['charge'] = rnd.choice([0.0, 1.0, -1.0, 0.5, 0.3333333, -0.16667, 4e-05])
                if r < 0.3:
                    a['mass'] = rnd.choice([72.0, 36.0])
            if rnd.random() < 0.15:
                a['extra'] = {'element': 'C'} if rnd.random() < 0.5 else {'custom': 3}
            atoms.append(a)
        names = [a['name'] for a in atoms]
        sections = []
        for _ in range(rnd.randint(0, 4)):
            t = rnd.choice(['bonds', 'angles', 'dihedrals', 'constraints', 'exclusions', 'position_restraints', 'pairs'])
            if rnd.random() < 0.2:
                # the rarely used interaction sections take the same code path through another row of the dispatch table
                t = rnd.choice(['pairs_nb', 'virtual_sites2', 'virtual_sites3', 'distance_restraints', 'orientation_restraints',
                                'dihedral_restraints', 'pairs_nb', 'virtual_sites2', 'distance_restraints'] +
                               (['SETTLE'] if rnd.random() < 0.15 and _SETTLE[0] else []))
            n = NATOMS[t] or rnd.randint(2, 3)
            if n > nat:
                continue
            lines = []
            for _ in range(rnd.randint(1, 3)):
                at = rnd.sample(names, n)
                params = [rnd.choice(['1', '2', '9'])] + [rnd.choice(['0.47', '120', '$' + d['_fcn'] if d['macros'] else '1250', '25.0']) for _ in range(rnd.randint(0, 3))]
                if t == 'exclusions':
                    params = []
                meta = None
                r = rnd.random()
                if r < 0.2:
                    meta = {'version': rnd.randint(1, 3)}
                elif r < 0.3:
                    meta = {'comment': 'x', 'edge': False}
                elif r < 0.4:
                    meta = {'ifdef': 'FLEXIBLE'}
                lines.append({'atoms': at, 'params': params, 'meta': meta})
            sections.append({'type': t, 'lines': lines, 'meta_line': None})
        # #meta only in the last subsection of its name
        for i, s in enumerate(sections):
            if rnd.random() < 0.25 and not any(s2['type'] == s['type'] for s2 in sections[i + 1:]):
                s['meta_line'] = {'group': 'g%d' % i}
                # keys that single lines of the section set themselves as well: the line's own value must win
                for k, v in (('version', 7), ('comment', 'from #meta'), ('ifdef', 'META'), ('edge', False)):
                    if rnd.random() < 0.3:
                        s['meta_line'][k] = v
                s['meta_pos'] = rnd.randint(0, len(s['lines']))
        edges = []
        if nat >= 2 and rnd.random() < 0.4:
            edges.append(rnd.sample(names, 2))
        items.append({'kind': 'block', 'name': name, 'nrexcl': rnd.randint(1, 3), 'atoms': atoms, 'sections': sections, 'edges': edges})
    for li in range(rnd.randint(0, 5)):
        link = {'kind': 'link', 'attrs': {}, 'sections': [], 'features': [], 'molmeta': {}, 'patterns': [], 'non_edges': [],
                'edges': [], 'atoms_section': []}
        if rnd.random() < 0.5:
            link['attrs']['resname'] = rnd.choice(['ALA', 'ALA|GLY', 'not:PRO'])
        if rnd.random() < 0.3:
            link['attrs']['cgsecstruct'] = rnd.choice(['H', 'E|T'])
        pool = [('BB', 0), ('BB', 1), ('BB', -1), ('SC1', 0), ('SC1', 1), ('BB', 2), ('SC1', '>'), ('BB', '*'), ('SC1', '<')]
        key_attrs = {}
        for pk in pool:
            a = {}
            if rnd.random() < 0.2:
                a['resname'] = rnd.choice(['LYS', 'ALA|SER'])
            key_attrs[pk] = a
        if 'resname' in link['attrs']:
            key_attrs = {pk: {} for pk in pool}
        for _ in range(rnd.randint(1, 3)):
            t = rnd.choice(['bonds', 'angles', 'dihedrals', 'constraints', 'exclusions', '!bonds', '!angles', '!dihedrals'])
            if rnd.random() < 0.2:
                t = rnd.choice(['pairs', 'pairs_nb', 'position_restraints', 'virtual_sites2', 'distance_restraints', '!pairs_nb',
                                '!constraints', 'orientation_restraints', '!virtual_sites2'])
            n = NATOMS[t.lstrip('!')] or 2
            lines = []
            for _ in range(rnd.randint(1, 2)):
                at = rnd.sample(pool, n)
                atts = []
                for (base, order) in at:
                    a = dict(key_attrs[(base, order)]) if rnd.random() < 0.7 else {}
                    if rnd.random() < 0.1:
                        a['atomname'] = base      # explicit, same as base
                    atts.append(a)
                params = [rnd.choice(['1', '2'])] + [rnd.choice(['0.35', '$' + d['_fcn'] if d['macros'] else '700', 'dist(BB,+BB)' if False else '96'])
                                                      for _ in range(rnd.randint(0, 2))]
                if t == 'exclusions' or (t.startswith('!') and rnd.random() < 0.5):
                    params = []
                meta = {'version': rnd.randint(1, 2)} if rnd.random() < 0.2 else None
                lines.append({'atoms': at, 'attrs': atts, 'params': params, 'meta': meta})
            link['sections'].append({'type': t, 'lines': lines, 'meta_line': None})
        for i, s in enumerate(link['sections']):
            if not s['type'].startswith('!') and rnd.random() < 0.2 and not any(s2['type'].lstrip('!') == s['type'] for s2 in link['sections'][i + 1:]):
                s['meta_line'] = {'group': 'link%d' % li}
                if rnd.random() < 0.5:
                    s['meta_line']['version'] = 7
                s['meta_pos'] = rnd.randint(0, len(s['lines']))
        if rnd.random() < 0.3:
            link['features'] = rnd.sample(['scfix', 'collagen', 'idr'], rnd.randint(1, 2))
        if rnd.random() < 0.2:
            link['molmeta'] = {'extdih': True}
        if rnd.random() < 0.25:
            link['patterns'] = [[('BB', 0, {}), ('BB', 1, {'resname': 'GLY'})], [('BB', 0, {}), ('SC1', 1, {})]][:rnd.randint(1, 2)]
        if rnd.random() < 0.25:
            o1 = rnd.choice([0, 0, 1, -1, 2])
            link['non_edges'] = [[('BB', o1), ('BB' if o1 == 0 else rnd.choice(['BB', 'SC1']), rnd.choice([x for x in (1, -1, 0, 2) if x != o1 or True]),
                                   {'resname': 'PRO'} if rnd.random() < 0.5 else {})]]
        if rnd.random() < 0.3:
            link['edges'] = [[('BB', 0), ('SC1', 0)]]
        if rnd.random() < 0.3:
            link['atoms_section'] = [(('BB', 0), {'replace': {'atype': 'Q5'}})]
        items.append(link)
    used_mod = set()
    for mi in range(rnd.randint(0, 3)):
        name = rnd.choice(['C-ter', 'N-ter', 'PHOS', 'X%d' % mi])
        if name in used_mod:
            continue
        used_mod.add(name)
        anchors = rnd.sample(['CA', 'C', 'N'], rnd.randint(1, 2))
        ptm = ['X%d%d' % (mi, j) for j in range(rnd.randint(1, 2))]
        edges = [(anchors[0], ptm[0])] + [(ptm[j], ptm[j + 1]) for j in range(len(ptm) - 1)] + [(anchors[0], a) for a in anchors[1:]]
        msec = []
        mnames = anchors + ptm
        for _ in range(rnd.choice([0, 0, 1, 2, 3])):
            t = rnd.choice(['bonds', 'angles', 'constraints', 'pairs', 'pairs_nb', 'position_restraints', 'exclusions',
                            'virtual_sites2', 'distance_restraints', 'impropers'])
            n = {'impropers': 4}.get(t, NATOMS.get(t)) or 2
            if n > len(mnames) or any(x['type'] == t for x in msec):
                continue
            lines = []
            for _ in range(rnd.randint(1, 2)):
                lines.append({'atoms': rnd.sample(mnames, n), 'params': [] if t == 'exclusions' else
                              [rnd.choice(['1', '2'])] + [rnd.choice(['0.31', '109.5', '400']) for _ in range(rnd.randint(0, 2))],
                              'meta': {'group': 'mod%d' % mi} if rnd.random() < 0.3 else None})
            msec.append({'type': t, 'lines': lines})
        items.append({'kind': 'mod', 'name': name, 'anchors': anchors, 'ptm': ptm, 'edges': edges, 'sections': msec,
                      'replace': {ptm[0]: {'atomname': 'OXT'}} if rnd.random() < 0.3 else {}})
    rnd.shuffle(items)
    d['items'] = items
    return d


def ref_key(base, order):
    if isinstance(order, int):
        return ('+' * order if order > 0 else '-' * (-order)) + base
    return order + base


def render_ref(rnd, base, order, attrs):
    """One atom reference in a link, in one of the equivalent spellings."""
    attrs = dict(attrs)
    if order != 0 and rnd.random() < 0.35:
        ref = base
        attrs['order'] = order
    else:
        ref = ref_key(base, order)
        if order != 0 and rnd.random() < 0.15:
            attrs['order'] = order      # redundant but consistent
    if attrs:
        js = json.dumps(attrs)
        return ref + js if rnd.random() < 0.3 else ref + ' ' + js
    return ref


def render_ff(d, rnd, fault=None):
    """-> (text, applied_fault). `fault` is applied at one random eligible position."""
    out = []
    eligible = []

    def emit(line, tags=()):
        if rnd.random() < 0.15:
            out.append('')
        if rnd.random() < 0.1:
            out.append('; a comment line')
        out.append(line + (' ; trailing' if rnd.random() < 0.1 and line and not line.startswith('[') else ''))
        for t in tags:
            eligible.append((t, len(out) - 1))
    if d['variables']:
        emit('[ variables ]')
        for k, v in d['variables'].items():
            emit('%s %s' % (k, json.dumps(v)))
    if d['macros']:
        emit('[ macros ]')
        for k, v in d['macros'].items():
            emit('%s %s' % (k, v))
    for it in d['items']:
        if it['kind'] == 'block':
            emit('[ moleculetype ]', ['toplevel'])
            emit('%s %d' % (it['name'], it['nrexcl']))
            emit('[ atoms ]')
            for i, a in enumerate(it['atoms'], 1):
                line = '%d %s %d %s %s %d' % (i, a['atype'], a['resid'], a['resname'], a['name'], a['cg'])
                if 'charge' in a:
                    line += ' %s' % a['charge']
                if 'mass' in a:
                    line += ' %s' % a['mass']
                if 'extra' in a:
                    line += ' ' + json.dumps(a['extra'])
                emit(line, ['block-atom'])
            names = [a['name'] for a in it['atoms']]
            for s in it['sections']:
                emit('[ %s ]' % s['type'], ['subsection'])
                for li, l in enumerate(s['lines']):
                    if s['meta_line'] is not None and s.get('meta_pos') == li:
                        emit('#meta ' + json.dumps(s['meta_line']))
                    refs = [a if rnd.random() < 0.6 else str(names.index(a) + 1) for a in l['atoms']]
                    toks = list(refs)
                    if rnd.random() < 0.3 or NATOMS[s['type']] is None or (l['meta'] and not l['params']):
                        toks.append('--')
                    toks += l['params']
                    if l['meta']:
                        toks.append(json.dumps(l['meta']))
                    tags = ['block-interaction']
                    if (NATOMS[s['type']] or 0) >= 2:
                        tags.append('fixed-arity')
                    emit(' '.join(toks), tags)
                if s['meta_line'] is not None and s.get('meta_pos') == len(s['lines']):
                    emit('#meta ' + json.dumps(s['meta_line']))
            if it['edges']:
                emit('[ edges ]', ['subsection'])
                for u, v in it['edges']:
                    emit('%s %s' % (u, v))
        elif it['kind'] == 'link':
            emit('[ link ]', ['toplevel'])
            for k, v in it['attrs'].items():
                if v.startswith('not:'):
                    emit('%s not("%s")' % (k, v[4:]))
                else:
                    emit('%s "%s"' % (k, v))
            if it['atoms_section']:
                emit('[ atoms ]')
                for (base, order), attrs in it['atoms_section']:
                    emit('%s %s' % (ref_key(base, order), json.dumps(attrs)), ['brace'])
            for s in it['sections']:
                emit('[ %s ]' % s['type'], ['subsection'])
                for li, l in enumerate(s['lines']):
                    if s['meta_line'] is not None and s.get('meta_pos') == li:
                        emit('#meta ' + json.dumps(s['meta_line']))
                    toks = [render_ref(rnd, b, o, a) for (b, o), a in zip(l['atoms'], l['attrs'])]
                    if rnd.random() < 0.3 or NATOMS[s['type'].lstrip('!')] is None or (l['meta'] and not l['params']):
                        toks.append('--')
                    toks += l['params']
                    if l['meta']:
                        toks.append(json.dumps(l['meta']))
                    tags = ['link-interaction']
                    if any(o != 0 for _, o in l['atoms']):
                        tags.append('has-prefix')
                    emit(' '.join(toks), tags)
                if s['meta_line'] is not None and s.get('meta_pos') == len(s['lines']):
                    emit('#meta ' + json.dumps(s['meta_line']))
            if it['edges']:
                emit('[ edges ]', ['subsection'])
                for (b1, o1), (b2, o2) in it['edges']:
                    emit('%s %s' % (ref_key(b1, o1), ref_key(b2, o2)))
            if it['non_edges']:
                emit('[ non-edges ]', ['subsection'])
                for (b1, o1), (b2, o2, a2) in it['non_edges']:
                    # the anchor's order may be spelled as a prefix or as an explicit attribute, like any other reference
                    emit('%s %s' % (render_ref(rnd, b1, o1, {}), render_ref(rnd, b2, o2, a2)))
            if it['patterns']:
                emit('[ patterns ]', ['subsection'])
                for pat in it['patterns']:
                    emit(' '.join(ref_key(b, o) + (' ' + json.dumps(a) if a else '') for b, o, a in pat))
            if it['features']:
                emit('[ features ]', ['subsection'])
                for f in it['features']:
                    emit(f)
            if it['molmeta']:
                emit('[ molmeta ]', ['subsection'])
                for k, v in it['molmeta'].items():
                    emit('%s %s' % (k, json.dumps(v)))
        else:
            emit('[ modification ]', ['toplevel'])
            emit(it['name'])
            emit('[ atoms ]')
            for a in it['anchors']:
                emit('%s %s' % (a, json.dumps({'element': a[0]})), ['brace'])
            for p in it['ptm']:
                attrs = {'element': 'O', 'PTM_atom': True}
                if p in it['replace']:
                    attrs['replace'] = it['replace'][p]
                emit('%s %s' % (p, json.dumps(attrs)), ['brace'])
            emit('[ edges ]', ['subsection'])
            for u, v in it['edges']:
                emit('%s %s' % (u, v))
            for sct in it.get('sections', []):
                emit('[ %s ]' % sct['type'], ['subsection'])
                for l in sct['lines']:
                    toks = list(l['atoms'])
                    if NATOMS.get(sct['type'], 4) is None or (l['meta'] and not l['params']) or rnd.random() < 0.2:
                        toks.append('--')
                    toks += l['params']
                    if l['meta']:
                        toks.append(json.dumps(l['meta']))
                    emit(' '.join(toks))
    applied = None
    if fault:
        applied = apply_fault(out, eligible, fault, rnd, d)
    return '\n'.join(out) + '\n', applied


def apply_fault(out, eligible, fault, rnd, d):
    def pick(tag):
        c = [i for t, i in eligible if t == tag]
        return rnd.choice(c) if c else None
    if fault == 'unknown-section':
        i = pick('subsection') if rnd.random() < 0.6 else pick('toplevel')
        if i is None:
            i = len(out)
        out[i:i] = ['[ bogus_section ]', 'A B 1 2 3']
        return 'unknown-section'
    if fault == 'undefined-block-atom':
        i = pick('block-interaction')
        if i is None:
            return None
        toks = out[i].split()
        toks[0] = 'ZZ9'
        out[i] = ' '.join(toks)
        return fault
    if fault == 'duplicate-block-atom':
        i = pick('block-atom')
        if i is None:
            return None
        out.insert(i + 1, out[i])
        return fault
    if fault == 'unbalanced-brace':
        c = [i for i, l in enumerate(out) if '}' in l and not l.lstrip().startswith(';')]
        if not c:
            return None
        i = rnd.choice(c)
        r_ = rnd.random()
        if r_ < 0.5:
            k = out[i].rfind('}')                     # a closing brace is missing
            out[i] = out[i][:k] + out[i][k + 1:]
        elif r_ < 0.75 and out[i].count('{') == 1:
            k = out[i].find('{')                      # the one opening brace of the line is missing: '... 1 0.3 "group": "x"}'
            out[i] = out[i][:k] + out[i][k + 1:]
        else:
            out[i] = out[i] + ' }' if ' ;' not in out[i] else out[i].replace(' ;', ' } ;', 1)      # one closing brace too many
        return fault
    if fault == 'prefix-order-contradiction':
        i = pick('has-prefix')
        if i is None:
            return None
        line = out[i]
        import re
        m = re.search(r'(\++|-+)([A-Z][A-Z0-9]*)', line)
        if not m:
            return None
        right = len(m.group(1)) * (1 if m.group(1)[0] == '+' else -1)
        wrong = rnd.choice([w for w in (0, 0, right + 1, right - 1, -right, 2 * right) if w != right])
        repl = '%s%s {"order": %d}' % (m.group(1), m.group(2), wrong)
        # only when the reference carries no attributes of its own
        after = line[m.end():].lstrip()
        if after.startswith('{'):
            return None
        out[i] = line[:m.start()] + repl + line[m.end():]
        return fault
    if fault == 'block-index-zero':
        # atoms of a block can be named by their 1-based index: 0 (and a number beyond the atoms) names no atom
        c = [i for i, l in enumerate(out) if l.startswith('[ moleculetype ]')]
        if not c:
            return None
        i = rnd.choice(c)
        j = i + 1
        while j < len(out) and not (out[j].startswith('[ ') and out[j].split()[1] in ('link', 'modification', 'moleculetype', 'macros', 'variables', 'citations')):
            j += 1
        out[j:j] = ['[ bonds ]', '0 1 1 0.3 1000']
        return fault
    if fault == 'wrong-arity':
        i = pick('fixed-arity')
        if i is None:
            return None
        toks = out[i].split(' ;')[0].split()
        r_ = rnd.random()
        if '--' in toks and '{' not in out[i] and r_ < 0.5:
            # one atom too many, closed by the delimiter: 'A B C -- 1 0.3 1000' in a two-atom section
            k = toks.index('--')
            out[i] = ' '.join(toks[:k] + [toks[0]] + toks[k:])
        elif r_ < 0.75:
            out[i] = toks[0]                      # too short a line
        else:
            body = [t for t in toks if t != '--']
            out[i] = ' '.join([body[0], '--'] + body[1:])   # one atom, closed by the delimiter
        return fault
    return None


def expected_ff(d):
    """Expected contents in plain data, derived from the description only."""
    mac = d['macros']

    def sub(tok):
        if isinstance(tok, str) and tok.startswith('$'):
            return mac[tok[1:]]
        return tok
    exp = {'variables': dict(d['variables']), 'blocks': [], 'links': [], 'mods': []}
    for it in d['items']:
        if it['kind'] == 'block':
            nodes = []
            for a in it['atoms']:
                attrs = {'atomname': a['name'], 'atype': sub(a['atype']), 'resname': a['resname'], 'resid': a['resid'], 'charge_group': a['cg']}
                if 'charge' in a:
                    attrs['charge'] = float(a['charge'])
                if 'mass' in a:
                    attrs['mass'] = float(a['mass'])
                attrs.update(a.get('extra', {}))
                nodes.append((a['name'], attrs))
            inter = {}
            edges = {frozenset(e) for e in it['edges']}
            active_meta = {}
            for s in it['sections']:
                for li, l in enumerate(s['lines']):
                    if s['meta_line'] is not None and s.get('meta_pos') == li:
                        active_meta.setdefault(s['type'], {}).update(s['meta_line'])
                    meta = dict(active_meta.get(s['type'], {}))
                    meta.update(l['meta'] or {})
                    t = s['type']
                    params = [sub(p) for p in l['params']]
                    if t == 'dihedrals' and params and params[0] == '2':
                        t = 'impropers'
                    inter.setdefault(t, []).append((tuple(l['atoms']), params, meta))
                    if t in EDGE_TYPES and meta.get('edge', True):
                        for u, v in zip(l['atoms'][:-1], l['atoms'][1:]):
                            edges.add(frozenset((u, v)))
                if s['meta_line'] is not None and s.get('meta_pos') == len(s['lines']):
                    active_meta.setdefault(s['type'], {}).update(s['meta_line'])
            exp['blocks'].append({'name': it['name'], 'nrexcl': it['nrexcl'], 'nodes': nodes, 'inter': inter, 'edges': edges})
        elif it['kind'] == 'link':
            all_nodes = {}
            for k, v in it['attrs'].items():
                all_nodes[k] = ('NOT', v[4:]) if v.startswith('not:') else (('CHOICE', tuple(v.split('|'))) if '|' in v else v)
            nodes = {}

            def touch(base, order, attrs):
                key = ref_key(base, order)
                a = dict(all_nodes)
                for k, v in attrs.items():
                    a[k] = ('CHOICE', tuple(v.split('|'))) if isinstance(v, str) and '|' in v else v
                a['order'] = order
                a.setdefault('atomname', base)
                nodes.setdefault(key, {}).update(a)
                return key
            for (base, order), attrs in it['atoms_section']:
                touch(base, order, attrs)
            inter, removed = {}, {}
            edges = set()
            active_meta = {}
            for s in it['sections']:
                for li, l in enumerate(s['lines']):
                    if s['meta_line'] is not None and s.get('meta_pos') == li:
                        active_meta.setdefault(s['type'], {}).update(s['meta_line'])
                    keys = [touch(b, o, a) for (b, o), a in zip(l['atoms'], l['attrs'])]
                    meta = dict(active_meta.get(s['type'], {}))
                    meta.update(l['meta'] or {})
                    params = [sub(p) for p in l['params']]
                    if s['type'].startswith('!'):
                        removed.setdefault(s['type'][1:], []).append((tuple(keys), params, meta))
                    else:
                        t = s['type']
                        if t == 'dihedrals' and params and params[0] == '2':
                            t = 'impropers'
                        inter.setdefault(t, []).append((tuple(keys), params, meta))
                        if t in EDGE_TYPES and meta.get('edge', True):
                            for u, v in zip(keys[:-1], keys[1:]):
                                edges.add(frozenset((u, v)))
                if s['meta_line'] is not None and s.get('meta_pos') == len(s['lines']):
                    active_meta.setdefault(s['type'], {}).update(s['meta_line'])
            for (b1, o1), (b2, o2) in it['edges']:
                # [ edges ] creates edges between keys; the nodes are created bare by networkx when absent
                k1, k2 = ref_key(b1, o1), ref_key(b2, o2)
                nodes.setdefault(k1, {})
                nodes.setdefault(k2, {})
                edges.add(frozenset((k1, k2)))
            non_edges = []
            for (b1, o1), (b2, o2, a2) in it['non_edges']:
                a = dict(all_nodes)
                a.update({k: (('CHOICE', tuple(v.split('|'))) if isinstance(v, str) and '|' in v else v) for k, v in a2.items()})
                a['order'] = o2
                a.setdefault('atomname', b2)
                non_edges.append((ref_key(b1, o1), a))
            patterns = [[(ref_key(b, o), {k: v for k, v in a.items()}) for b, o, a in pat] for pat in it['patterns']]
            exp['links'].append({'nodes': nodes, 'inter': inter, 'removed': removed, 'edges': edges, 'non_edges': non_edges,
                                 'patterns': patterns, 'features': set(it['features']), 'molmeta': dict(it['molmeta'])})
        else:
            nodes = {}
            for a in it['anchors']:
                nodes[a] = {'element': a[0], 'PTM_atom': False, 'atomname': a, 'order': 0}
            for p in it['ptm']:
                nodes[p] = {'element': 'O', 'PTM_atom': True, 'atomname': p, 'order': 0}
                if p in it['replace']:
                    nodes[p]['replace'] = it['replace'][p]
            minter = {}
            for sct in it.get('sections', []):
                for l in sct['lines']:
                    minter.setdefault(sct['type'], []).append((tuple(l['atoms']), [sub(p_) for p_ in l['params']], dict(l['meta'] or {})))
            exp['mods'].append({'name': it['name'], 'nodes': nodes, 'edges': {frozenset(e) for e in it['edges']}, 'inter': minter})
    return exp


def plain(v):
    """Library values -> plain comparable data."""
    n = type(v).__name__
    if n == 'Choice':
        return ('CHOICE', tuple(v.value))
    if n == 'NotDefinedOrNot':
        return ('NOT', v.value)
    if isinstance(v, dict):
        return {k: plain(x) for k, x in v.items()}
    if isinstance(v, (list, tuple)):
        return [plain(x) for x in v]
    return v


def observed_ff(ff):
    obs = {'variables': dict(ff.variables), 'blocks': [], 'links': [], 'mods': []}
    for name, b in ff.blocks.items():
        obs['blocks'].append({'name': b.name, 'key': name, 'nrexcl': b.nrexcl,
                              'nodes': [(k, plain(dict(d))) for k, d in b.nodes(data=True)],
                              'inter': {t: [(tuple(i.atoms), [plain(p) for p in i.parameters], plain(dict(i.meta))) for i in lst]
                                        for t, lst in b.interactions.items() if lst},
                              'edges': {frozenset(e) for e in b.edges}})
    for l in ff.links:
        obs['links'].append({'nodes': {k: plain(dict(d)) for k, d in l.nodes(data=True)},
                             'inter': {t: [(tuple(i.atoms), [plain(p) for p in i.parameters], plain(dict(i.meta))) for i in lst]
                                       for t, lst in l.interactions.items() if lst},
                             'removed': {t: [(tuple(i.atoms), [plain(p) for p in i.parameters], plain(dict(i.meta))) for i in lst]
                                         for t, lst in l.removed_interactions.items() if lst},
                             'edges': {frozenset(e) for e in l.edges}, 'non_edges': [(k, plain(dict(a))) for k, a in l.non_edges],
                             'patterns': [[(r, plain(dict(a))) for r, a in pat] for pat in l.patterns],
                             'features': set(l.features), 'molmeta': plain(dict(l.molecule_meta))})
    for name, m in ff.modifications.items():
        obs['mods'].append({'name': m.name, 'nodes': {k: plain(dict(d)) for k, d in m.nodes(data=True)},
                            'edges': {frozenset(e) for e in m.edges},
                            'inter': {t: [(tuple(i.atoms), [plain(p_) for p_ in i.parameters], plain(dict(i.meta))) for i in lst]
                                      for t, lst in m.interactions.items() if lst}})
    return obs


def compare_ff(exp, obs):
    if obs['variables'] != exp['variables']:
        return ('ff/variables', {'observed': obs['variables'], 'expected': exp['variables']})
    for kind in ('blocks', 'links', 'mods'):
        if len(obs[kind]) != len(exp[kind]):
            return ('ff/%s-count' % kind, {'observed': len(obs[kind]), 'expected': len(exp[kind])})
    if [b['name'] for b in obs['blocks']] != [b['name'] for b in exp['blocks']]:
        return ('ff/block-order', {'observed': [b['name'] for b in obs['blocks']], 'expected': [b['name'] for b in exp['blocks']]})
    if [m['name'] for m in obs['mods']] != [m['name'] for m in exp['mods']]:
        return ('ff/modification-order', {'observed': [m['name'] for m in obs['mods']]})
    for i, (o, e) in enumerate(zip(obs['blocks'], exp['blocks'])):
        if o['nrexcl'] != e['nrexcl'] or o['key'] != e['name']:
            return ('ff/block-header', {'block': e['name']})
        if o['nodes'] != e['nodes']:
            return ('ff/block-atoms', {'block': e['name'], 'observed': o['nodes'][:4], 'expected': e['nodes'][:4]})
        if o['inter'] != e['inter']:
            return ('ff/block-interactions', {'block': e['name'], 'observed': {k: v[:3] for k, v in o['inter'].items()},
                                              'expected': {k: v[:3] for k, v in e['inter'].items()}})
        if o['edges'] != e['edges']:
            return ('ff/block-edges', {'block': e['name'], 'observed': sorted(map(sorted, o['edges'])), 'expected': sorted(map(sorted, e['edges']))})
    for i, (o, e) in enumerate(zip(obs['links'], exp['links'])):
        for fld in ('nodes', 'inter', 'removed', 'edges', 'non_edges', 'patterns', 'features', 'molmeta'):
            if o[fld] != e[fld]:
                return ('ff/link-' + fld, {'link_index': i, 'observed': repr(o[fld])[:600], 'expected': repr(e[fld])[:600]})
    for o, e in zip(obs['mods'], exp['mods']):
        if o['nodes'] != e['nodes'] or o['edges'] != e['edges'] or o['inter'] != e['inter']:
            return ('ff/modification', {'name': e['name'], 'observed': repr(o)[:500], 'expected': repr(e)[:500]})
    return None


def check_ff(rnd, b):
    from vermouth.ffinput import read_ff
    from vermouth.forcefield import ForceField
    d = gen_ff(rnd)
    text, _ = render_ff(d, rnd)
    ff = ForceField(name='verif_c13')
    b.hits += 1
    try:
        read_ff(text.splitlines(), ff)
    except Exception as e:
        import traceback
        if "section '['settle']'" in repr(e) and '[ SETTLE ]' in text:
            # classified by mechanism: the documented section name SETTLE can never match, header names are case-folded
            return ('ff/section-name-SETTLE-unreachable', {'error': repr(e), 'text': text}), d, text
        return ('ff/valid-file-rejected', {'error': repr(e), 'cause': repr(e.__cause__), 'text': text}), d, text
    p = compare_ff(expected_ff(d), observed_ff(ff))
    if p:
        p[1]['text'] = text
    return p, d, text


FAULTS = ['unknown-section', 'undefined-block-atom', 'duplicate-block-atom', 'unbalanced-brace', 'prefix-order-contradiction',
          'wrong-arity', 'block-index-zero']


def check_ff_fault(rnd, b):
    from vermouth.ffinput import read_ff
    from vermouth.forcefield import ForceField
    d = gen_ff(rnd)
    fault = rnd.choice(FAULTS)
    if fault == 'block-index-zero' and not _SETTLE[0]:
        # recorded finding (the shipped martini3001 small-molecule file relies on index 0): drawn in every eighth batch only
        fault = 'wrong-arity'
    text, applied = render_ff(d, rnd, fault=fault)
    if not applied:
        return 'skip', fault, text
    ff = ForceField(name='verif_c13f')
    b.hits += 1
    try:
        read_ff(text.splitlines(), ff)
    except Exception:
        return None, fault, text
    return ('fault/%s-accepted' % fault, {'text': text, 'blocks': list(ff.blocks), 'links': len(ff.links)}), fault, text


# =============================================================== (b) .itp
ITP_ATOMS = {'bonds': 2, 'angles': 3, 'dihedrals': 4, 'constraints': 2, 'pairs': 2, 'position_restraints': 1, 'settles': 1,
             'virtual_sites2': 3, 'exclusions': None, 'virtual_sitesn': None}


def gen_itp(rnd):
    mols = []
    for mi in range(rnd.randint(1, 3)):
        n = rnd.randint(1, 6)
        atoms = []
        for i in range(n):
            a = {'atype': rnd.choice(['P1', 'C3', 'Qa']), 'resid': rnd.randint(1, 3), 'resname': rnd.choice(['ALA', 'POPC']),
                 'name': 'A%d' % i, 'cg': i + 1}
            r = rnd.random()
            if r < 0.8:
                a['charge'] = rnd.choice([0.0, -1.0, 0.25])
                if r < 0.4:
                    a['mass'] = rnd.choice([72.0, 45.0])
            atoms.append(a)
        secs = []
        for _ in range(rnd.randint(0, 4)):
            t = rnd.choice(sorted(ITP_ATOMS))
            k = ITP_ATOMS[t]
            if k is None:
                k = rnd.randint(2, 4)
            if k > n:
                continue
            lines = []
            guard = None
            for _ in range(rnd.randint(1, 3)):
                idx = rnd.sample(range(1, n + 1), k)
                params = [rnd.choice(['1', '2'])] + [rnd.choice(['0.3', '1000', '120']) for _ in range(rnd.randint(0, 2))]
                if t == 'exclusions':
                    params = []
                if t == 'virtual_sitesn':
                    params = [rnd.choice(['1', '2'])]
                lines.append({'idx': idx, 'params': params})
            if rnd.random() < 0.3:
                guard = (rnd.choice(['ifdef', 'ifndef']), rnd.choice(['FLEXIBLE', 'POSRES']), rnd.random() < 0.3)
            secs.append({'type': t, 'lines': lines, 'guard': guard})
        mol = {'name': 'MOL%d' % mi, 'nrexcl': rnd.randint(1, 3), 'atoms': atoms, 'sections': secs}
        if rnd.random() < 0.15:
            # the whole molecule type sits inside a conditional that opens BEFORE its [ moleculetype ] header
            mol['wrap'] = (rnd.choice(['ifdef', 'ifndef']), rnd.choice(['FLEXIBLE', 'POSRES', 'HEAVY_H']))
            for s_ in secs:
                s_['guard'] = None
        mols.append(mol)
    return mols


def render_itp(mols, rnd, fault=None):
    out = []
    applied = None
    fault_mol = rnd.randrange(len(mols)) if fault else None
    for mi, m in enumerate(mols):
        if m.get('wrap'):
            out.append('#%s %s' % m['wrap'])
        out += ['[ moleculetype ]', '; name nrexcl', '%s %d' % (m['name'], m['nrexcl']), '', '[ atoms ]']
        for i, a in enumerate(m['atoms'], 1):
            line = '%d %s %d %s %s %d' % (i, a['atype'], a['resid'], a['resname'], a['name'], a['cg'])
            if 'charge' in a:
                line += ' %s' % a['charge']
            if 'mass' in a:
                line += ' %s' % a['mass']
            out.append(line)
        if fault == 'itp-duplicate-atom' and mi == fault_mol:
            out.append(out[-1])
            applied = fault
        for s in m['sections']:
            out.append('')
            out.append('[ %s ]' % s['type'])
            body = []
            for l in s['lines']:
                idx = [str(x) for x in l['idx']]
                if s['type'] == 'virtual_sitesn':
                    toks = [idx[0]] + l['params'] + idx[1:]
                else:
                    toks = idx + l['params']
                body.append(' '.join(toks))
            if s['guard']:
                cond, tag, with_else = s['guard']
                if with_else:
                    inv = 'ifndef' if cond == 'ifdef' else 'ifdef'
                    out += ['#%s %s' % (inv, tag), '#else'] + body + ['#endif']
                else:
                    out += ['#%s %s' % (cond, tag)] + body + ['#endif']
            else:
                out += body
        if fault == 'itp-index-beyond-atoms' and mi == fault_mol:
            out += ['[ bonds ]', '1 %d 1 0.3 1000' % (len(m['atoms']) + 1)]
            applied = fault
        if fault in ('itp-index-zero', 'itp-index-negative') and mi == fault_mol:
            # atom indices are 1-based: 0 and negative numbers name no atom (and must not wrap round to the end of the list)
            n = len(m['atoms'])
            bad = '0' if fault == 'itp-index-zero' else '-%d' % (1 + n % 2)
            variant = (n + len(m['sections'])) % 4
            sec, ar, par = [('bonds', 2, '1 0.3 1000'), ('angles', 3, '2 120 25'), ('exclusions', 2, ''), ('constraints', 2, '1 0.3')][variant]
            idx = [str(1 + (k % n)) for k in range(ar)]
            idx[(n + mi) % ar] = bad
            body = ['[ %s ]' % sec, (' '.join(idx) + ' ' + par).strip()]
            if n % 3 == 0:
                body = [body[0], '#ifdef FLEX', body[1], '#endif']
            out += body
            applied = fault
        if fault == 'itp-too-few-atoms' and mi == fault_mol:
            # sections whose atoms are taken with a slice of the line: one atom short
            n = len(m['atoms'])
            sec, need = [('virtual_sites4', 5), ('angle_restraints', 4), ('dihedral_restraints', 4), ('virtual_sites3', 4)][(n + mi) % 4]
            out += ['[ %s ]' % sec, ' '.join(str(1 + (k % n)) for k in range(need - 1))]
            applied = fault
        if fault == 'itp-undefined-atom-name' and mi == fault_mol:
            out += ['[ bonds ]', '%s ZZ9 1 0.3 1000' % m['atoms'][0]['name']]
            applied = fault
        if fault == 'itp-unknown-section' and mi == fault_mol:
            out += ['[ bogus ]', '1 2 3']
            applied = fault
        if m.get('wrap'):
            out.append('#endif')
        if fault == 'itp-endif-without-if' and mi == fault_mol:
            out += ['#endif']
            applied = fault
        out.append('')
    return '\n'.join(out) + '\n', applied


def check_itp(rnd, b, fault=None):
    from vermouth.forcefield import ForceField
    from vermouth.gmx.itp_read import read_itp
    mols = gen_itp(rnd)
    text, applied = render_itp(mols, rnd, fault)
    ff = ForceField(name='verif_c13i')
    b.hits += 1
    try:
        read_itp(text.splitlines(), ff)
        raised = None
    except Exception as e:
        raised = e
    if fault:
        if not applied:
            return 'skip', mols, text
        if raised is None:
            return ('fault/%s-accepted' % fault, {'text': text}), mols, text
        return None, mols, text
    if raised is not None:
        return ('itp/valid-file-rejected', {'error': repr(raised), 'cause': repr(raised.__cause__), 'text': text}), mols, text
    if list(ff.blocks) != [m['name'] for m in mols]:
        return ('itp/molecule-list', {'observed': list(ff.blocks), 'expected': [m['name'] for m in mols], 'text': text}), mols, text
    for m in mols:
        blk = ff.blocks[m['name']]
        if blk.nrexcl != m['nrexcl'] or blk.name != m['name']:
            return ('itp/header', {'molecule': m['name']}), mols, text
        exp_nodes = []
        for i, a in enumerate(m['atoms']):
            attrs = {'index': i + 1, 'atomname': a['name'], 'atype': a['atype'], 'resname': a['resname'], 'resid': a['resid'], 'charge_group': a['cg']}
            if 'charge' in a:
                attrs['charge'] = float(a['charge'])
            if 'mass' in a:
                attrs['mass'] = float(a['mass'])
            exp_nodes.append((i, attrs))
        if [(k, dict(d)) for k, d in blk.nodes(data=True)] != exp_nodes:
            return ('itp/atoms', {'molecule': m['name'], 'observed': [(k, dict(d)) for k, d in blk.nodes(data=True)][:4], 'expected': exp_nodes[:4], 'text': text}), mols, text
        exp_inter = {}
        for s in m['sections']:
            meta = {}
            if s['guard']:
                meta = {s['guard'][0]: s['guard'][1]}
            if m.get('wrap'):
                meta = {m['wrap'][0]: m['wrap'][1]}
            for l in s['lines']:
                exp_inter.setdefault(s['type'], []).append((tuple(x - 1 for x in l['idx']), list(l['params']), dict(meta)))
        obs_inter = {t: [(tuple(i.atoms), list(i.parameters), dict(i.meta)) for i in lst] for t, lst in blk.interactions.items() if lst}
        if obs_inter != exp_inter:
            return ('itp/interactions', {'molecule': m['name'], 'observed': {k: v[:3] for k, v in obs_inter.items()},
                                         'expected': {k: v[:3] for k, v in exp_inter.items()}, 'text': text}), mols, text
    return None, mols, text


# =============================================================== (c) backward style .map
def check_map(rnd, b):
    from vermouth.forcefield import ForceField
    from vermouth.map_input import read_backmapping_file
    from vermouth.molecule import Block
    ffa, ffb = ForceField(name='srcff'), ForceField(name='dstff')
    nmol = rnd.randint(1, 3)
    specs = []
    out = ['; generated', '']
    for mi in range(nmol):
        name = 'M%d' % mi
        na, nb = rnd.randint(1, 6), rnd.randint(1, 3)
        anames = ['C%d' % i for i in range(na)]
        bnames = ['B%d' % i for i in range(nb)]
        ba, bb = Block(force_field=ffa), Block(force_field=ffb)
        ba.name = bb.name = name
        for a in anames:
            ba.add_atom({'atomname': a, 'resname': name, 'resid': 1})
        for x in bnames:
            bb.add_atom({'atomname': x, 'resname': name, 'resid': 1})
        ffa.blocks[name] = ba
        ffb.blocks[name] = bb
        out += ['[ molecule ]', name, '[ from ]', 'srcff', '[ to ]', 'dstff', '[ atoms ]']
        expw = {}
        for i, a in enumerate(anames, 1):
            k = rnd.randint(1, 3)
            beads = [rnd.choice(bnames) for _ in range(k)]
            null = set()
            toks = []
            counted = []
            for x in beads:
                if rnd.random() < 0.2 and x not in counted:
                    if x in null:
                        continue
                    null.add(x)
                    toks.append('!' + x)
                elif x not in null:
                    counted.append(x)
                    toks.append(x)
            if not toks:
                toks = [beads[0]]
                counted = [beads[0]]
            out.append('%d %s %s%s' % (i, a, ' '.join(toks), ' ; c' if rnd.random() < 0.1 else ''))
            tot = len(counted)
            w = {}
            for x in set(counted):
                w[x] = counted.count(x) / tot
            for x in null:
                w[x] = 0
            expw[a] = w
        if rnd.random() < 0.3:
            out += ['[ chiral ]', 'C0 C1 C2']   # sections the reader must ignore
        out.append('')
        specs.append((name, expw))
    text = '\n'.join(out) + '\n'
    b.hits += 1
    try:
        maps = read_backmapping_file(text.splitlines(), {'srcff': ffa, 'dstff': ffb})
    except Exception as e:
        return ('map/valid-file-rejected', {'error': repr(e), 'text': text}), text
    got = maps.get('srcff', {}).get('dstff', {})
    if sorted(got) != sorted(n for n, _ in specs):
        return ('map/mapping-list', {'observed': sorted(got), 'expected': [n for n, _ in specs], 'text': text}), text
    for name, expw in specs:
        m = got[name]
        obs = {a: dict(w) for a, w in m.mapping.items()}
        if set(obs) != set(expw):
            return ('map/atoms', {'molecule': name, 'observed': sorted(obs), 'expected': sorted(expw), 'text': text}), text
        for a in expw:
            if set(obs[a]) != set(expw[a]) or any(abs(obs[a][x] - expw[a][x]) > 1e-12 for x in expw[a]):
                return ('map/weights', {'molecule': name, 'atom': a, 'observed': obs[a], 'expected': expw[a], 'text': text}), text
    return None, text



# =============================================================== (c2) new-style .mapping
def check_mapping(rnd, b):
    from vermouth.forcefield import ForceField
    from vermouth.map_input import read_mapping_file
    from vermouth.molecule import Block
    ffa, ffb = ForceField(name='srcff'), ForceField(name='dstff')
    blocks = {}
    for ff, prefix, sizes in ((ffa, 'R', (2, 5)), (ffb, 'T', (1, 3))):
        for i in range(4):
            blk = Block(force_field=ff)
            blk.name = '%s%d' % (prefix, i)
            blk.nrexcl = 1
            n = rnd.randint(*sizes)
            names = ['%s%d%s' % ('A' if prefix == 'R' else 'B', i, chr(97 + j)) for j in range(n)]
            for nm in names:
                blk.add_atom({'atomname': nm, 'resname': blk.name, 'resid': 1, 'charge_group': 1, 'atype': 'x'})
            for x, y in zip(names, names[1:]):
                blk.add_edge(x, y)
            ff.blocks[blk.name] = blk
            blocks[blk.name] = names
    out = ['; generated .mapping file']
    specs = []
    used_names = set()
    for mi in range(rnd.randint(1, 3)):
        nfrom, nto = rnd.choice([1, 1, 2]), rnd.choice([1, 1, 2])
        fb = [rnd.choice(['R0', 'R1', 'R2', 'R3']) for _ in range(nfrom)]
        if tuple(fb) in used_names:
            continue
        used_names.add(tuple(fb))
        tb = [rnd.choice(['T0', 'T1', 'T2', 'T3']) for _ in range(nto)]
        fid = ['%s#%d' % (x, i + 1) for i, x in enumerate(fb)] if (nfrom > 1 or rnd.random() < 0.3) else list(fb)
        tid = ['%s#%d' % (x, i + 1) for i, x in enumerate(tb)] if (nto > 1 or rnd.random() < 0.3) else list(tb)
        out += ['', '[ block ]', '[ from ]', 'srcff', '[ to ]', 'dstff', '[ from blocks ]', ' '.join(fid), '[ to blocks ]', ' '.join(tid)]
        # extra nodes declared in the file itself: identifier (explicit, or the one used last) + atom name + own attributes
        extra = []
        if rnd.random() < 0.5:
            last = None
            for j in range(rnd.randint(1, 3)):
                k_ = rnd.randrange(nfrom) if (last is None or rnd.random() < 0.4) else last
                explicit = last is None or k_ != last or rnd.random() < 0.4
                attrs_ = rnd.choice([{}, {'vf_mark': 7}, {'vf_mark': 7, 'vf_other': 'x'}, {'vf_other': 'y'}])
                nm_ = 'XN%d%d' % (mi, j)
                extra.append({'k': k_, 'name': nm_, 'attrs': attrs_,
                              'line': ('%s:%s' % (fid[k_], nm_) if explicit else nm_) + ((' ' + json.dumps(attrs_)) if attrs_ else '')})
                last = k_
            out += ['[ from nodes ]'] + [e_['line'] for e_ in extra]
        out += ['[ mapping ]']
        foff = [0]
        for x in fb:
            foff.append(foff[-1] + len(blocks[x]))
        toff = [0]
        for x in tb:
            toff.append(toff[-1] + len(blocks[x]))
        expected = {}
        fname, tname = {}, {}
        last_from = last_to = None
        lines = []
        for k, x in enumerate(fb):
            for pos, atom in enumerate(blocks[x]):
                if rnd.random() < 0.15:
                    continue          # unmapped atom
                for _ in range(rnd.choice([1, 1, 2])):
                    tk = rnd.randrange(nto)
                    tpos = rnd.randrange(len(blocks[tb[tk]]))
                    tatom = blocks[tb[tk]][tpos]
                    w = rnd.choice([None, None, 0, 1, 2, 3])
                    fspec = '%s:%s' % (fid[k], atom) if (nfrom > 1 and last_from != k) or rnd.random() < 0.4 else atom
                    if nfrom > 1 and last_from != k:
                        fspec = '%s:%s' % (fid[k], atom)
                    tspec = '%s:%s' % (tid[tk], tatom) if (nto > 1 and last_to != tk) or rnd.random() < 0.4 else tatom
                    if nto > 1 and last_to != tk:
                        tspec = '%s:%s' % (tid[tk], tatom)
                    last_from, last_to = k, tk
                    lines.append('%s %s%s' % (fspec, tspec, '' if w is None else ' %d' % w))
                    expected.setdefault(foff[k] + pos, {})[toff[tk] + tpos] = 1 if w is None else w
                    fname[foff[k] + pos] = '%s:%s' % (fid[k], atom)
                    tname[toff[tk] + tpos] = '%s:%s' % (tid[tk], tatom)
        extra_expect = {}
        for j, e_ in enumerate(extra):
            tk = rnd.randrange(nto)
            tpos = rnd.randrange(len(blocks[tb[tk]]))
            lines.append('%s:%s %s:%s' % (fid[e_['k']], e_['name'], tid[tk], blocks[tb[tk]][tpos]))
            expected[foff[-1] + j] = {toff[tk] + tpos: 1}
            extra_expect[foff[-1] + j] = dict(e_['attrs'], atomname=e_['name'])
        if not lines:
            atom, tatom = blocks[fb[0]][0], blocks[tb[0]][0]
            lines.append('%s:%s %s:%s' % (fid[0], atom, tid[0], tatom))
            expected[0] = {0: 1}
        out += lines
        refs = {}
        if rnd.random() < 0.35:
            # reference atoms: "<atom to> <atom from>", the from atom must be one that maps onto that to atom
            out.append('[ reference atoms ]')
            for t_ in rnd.sample(sorted(tname), min(len(tname), rnd.randint(1, 2))):
                cands = [f_ for f_ in sorted(fname) if t_ in expected.get(f_, {})]
                if cands:
                    f_ = rnd.choice(cands)
                    out.append('%s %s' % (tname[t_], fname[f_]))
                    refs[t_] = f_
        resids_ = {foff[k] + pos: k + 1 for k, x in enumerate(fb) for pos in range(len(blocks[x]))}
        resids_.update({foff[-1] + j: e_['k'] + 1 for j, e_ in enumerate(extra)})
        specs.append({'names': tuple(fb), 'mapping': expected, 'n_to': toff[-1], 'from_resids': resids_, 'extra': extra_expect, 'refs': refs})
    text = '\n'.join(out) + '\n'
    b.hits += 1
    try:
        maps = read_mapping_file(text.splitlines(), {'srcff': ffa, 'dstff': ffb})
    except Exception as e:
        import traceback
        return ('mapping/valid-file-rejected', {'error': repr(e), 'cause': repr(e.__cause__), 'text': text}), text
    got = maps.get('srcff', {}).get('dstff', {})
    if sorted(got) != sorted(sp['names'] for sp in specs):
        return ('mapping/mapping-list', {'observed': sorted(got), 'expected': sorted(sp['names'] for sp in specs), 'text': text}), text
    for sp in specs:
        m = got[sp['names']]
        obs = {k: dict(v) for k, v in m.mapping.items()}
        if obs != sp['mapping']:
            return ('mapping/weights', {'names': sp['names'], 'observed': obs, 'expected': sp['mapping'], 'text': text}), text
        if set(m.block_from.nodes) != set(sp['mapping']):
            return ('mapping/from-block-nodes', {'names': sp['names'], 'observed': sorted(m.block_from.nodes), 'expected': sorted(sp['mapping'])}), text
        if len(m.block_to) != sp['n_to']:
            return ('mapping/to-block-nodes', {'names': sp['names'], 'observed': len(m.block_to), 'expected': sp['n_to']}), text
        for idx in m.block_from.nodes:
            if m.block_from.nodes[idx].get('resid') != sp['from_resids'][idx]:
                return ('mapping/from-block-resid', {'names': sp['names'], 'node': idx, 'observed': m.block_from.nodes[idx].get('resid'),
                                                     'expected': sp['from_resids'][idx]}), text
        for idx in m.block_from.nodes:
            d_ = m.block_from.nodes[idx]
            want_ = sp['extra'].get(idx, {})
            got_ = {k_: d_[k_] for k_ in ('vf_mark', 'vf_other') if k_ in d_}
            if got_ != {k_: v_ for k_, v_ in want_.items() if k_ != 'atomname'} or ('atomname' in want_ and d_.get('atomname') != want_['atomname']):
                return ('mapping/from-node-attributes', {'names': sp['names'], 'node': idx, 'observed': {k_: v_ for k_, v_ in d_.items() if k_ != 'graph'},
                                                         'declared': want_, 'text': text}), text
        if dict(m.references) != sp['refs']:
            return ('mapping/reference-atoms', {'names': sp['names'], 'observed': dict(m.references), 'declared': sp['refs'], 'text': text}), text
        if tuple(m.names) != sp['names'] or m.ff_from != 'srcff' or m.ff_to != 'dstff':
            return ('mapping/header', {'names': m.names, 'ff_from': str(m.ff_from), 'ff_to': str(m.ff_to)}), text
    return None, text


def cases(tier, seed):
    nb, per = (32, 120) if tier == 'quick' else (128, 1200)
    return [{'seed': seed, 'batch': b, 'n': per} for b in range(nb)]


_SETTLE = [False]


def run_case(params):
    rnd = harness.rng('C13', params['seed'], params['batch'])
    b = harness.Batch()
    # the [ SETTLE ] section (known finding) is drawn in every eighth batch only, so that the other batches report "held"
    _SETTLE[0] = params['batch'] % 8 == 0
    for j in range(params['n']):
        b.total += 1
        r = rnd.random()
        if r < 0.4:
            p, d, text = check_ff(rnd, b)
            b.feat('ff_files')
            if not p:
                kinds = [it['kind'] for it in d['items']]
                nl = kinds.count('link')
                if nl >= 2:
                    first, last = kinds.index('link'), len(kinds) - 1 - kinds[::-1].index('link')
                    if any(k != 'link' for k in kinds[first:last]) or last < len(kinds) - 1:
                        b.feat('ff_links_interleaved')
                        b.nontrivial(text, {'ff_text': text[:3000]})
        elif r < 0.6:
            p, fault, text = check_ff_fault(rnd, b)
            if p == 'skip':
                b.total -= 1
                continue
            b.feat('fault_' + fault)
        elif r < 0.8:
            p, mols, text = check_itp(rnd, b)
            b.feat('itp_files')
            if not p and len(mols) >= 2 and any(len(m['atoms']) > len(mols[0]['atoms']) for m in mols[1:]):
                b.feat('itp_later_molecule_longer')
                b.nontrivial(text, {'itp_text': text[:2500]})
        elif r < 0.88:
            fault = rnd.choice(['itp-duplicate-atom', 'itp-index-beyond-atoms', 'itp-unknown-section', 'itp-endif-without-if',
                                'itp-undefined-atom-name', 'itp-index-zero', 'itp-index-zero', 'itp-index-negative', 'itp-too-few-atoms', 'itp-too-few-atoms'])
            p, mols, text = check_itp(rnd, b, fault=fault)
            if p == 'skip':
                b.total -= 1
                continue
            b.feat('fault_' + fault)
        elif r < 0.94:
            p, text = check_map(rnd, b)
            b.feat('map_files')
            if not p:
                b.nontrivial(text, {'map_text': text[:1500]})
        else:
            p, text = check_mapping(rnd, b)
            b.feat('mapping_files')
            if not p and text.count('[ block ]') >= 2:
                b.nontrivial(text, {'mapping_text': text[:1500]})
        if p:
            b.violation(p[0], 'loaded objects differ from what the file declares (%s)' % p[0], {'subcase': j, 'detail': p[1]})
    return b.result()
