"""C02 - a written ITP states exactly the molecule held in memory.

Events : the text written by vermouth.gmx.itp.write_molecule_itp into a StringIO.
Oracle : independent ITP reader (vf.oracles.itpread) + comparison with the in-memory molecule: atoms in atom-id
         order numbered 1..N, every interaction exactly once in the right section, on its own atoms, with its
         parameters, inside the guard its meta names.
"""
import io

from .. import harness, util
from ..oracles import itpread

PROPERTY = 'C02'
LEVEL = 'exploration'
RULE = ('Batches of generated molecules: 1-40 nodes; node keys contiguous / sparse / shuffled insertion order / '
        'negative and large; atomid absent / identity / permutation of 1..N / partial / duplicated / offset with gaps / '
        'zero-based; 0-60 interactions over 13 interaction types with versions, ifdef, ifndef, groups, comments, '
        'repeated atom tuples; charge and mass present, absent or mixed per atom; pre/post section lines; '
        'meta define; molecules that went through node removal and merge_molecule; a few 10^4-atom molecules in the '
        'thorough tier. Non-trivial = (atom-id order differs from node order, or node keys are not 1..N) and >= 1 '
        'interaction. distinct = distinct (keys, atomids, interactions) hashes. Also: interaction types whose list exists but is empty when written (read through the defaultdict, or emptied by removals); residue numbers 0 and negative; numeric parameters incl. zeros; the same object written a second time after its atoms were renumbered / added / removed.')
ASSUMPTIONS = ['tokens (names, types, parameters) contain no whitespace, ";" or newline',
               'line order inside a section, alignment, header and comment lines are not compared',
               'an atom with a mass but no charge cannot be expressed in the positional [ atoms ] format; '
               'such atoms are generated and reported under their own mechanism key']
MIN_HITS = {'quick': 4000, 'thorough': 150000}
CASE_TIMEOUT = 900

ARITY = {'bonds': (2, 2), 'angles': (3, 3), 'dihedrals': (4, 4), 'impropers': (4, 4), 'constraints': (2, 2),
         'pairs': (2, 2), 'exclusions': (2, 5), 'virtual_sites2': (3, 3), 'virtual_sites3': (4, 4),
         'virtual_sitesn': (2, 6), 'position_restraints': (1, 1), 'settles': (1, 1), 'cmap': (5, 5)}
MACROS = ['FLEXIBLE', 'POSRES', 'M3_CHOLESTEROL', 'X1']


def gen(rnd, big=False):
    n = rnd.randint(1, 40) if not big else rnd.choice([9999, 10001, 12000])
    style = rnd.choice(['zero', 'one', 'sparse', 'shuffled', 'wild'])
    if style == 'zero':
        keys = list(range(n))
    elif style == 'one':
        keys = list(range(1, n + 1))
    elif style == 'sparse':
        keys = sorted(rnd.sample(range(n * 5 + 5), n))
    elif style == 'shuffled':
        keys = rnd.sample(range(n * 3 + 3), n)
    else:
        keys = rnd.sample(range(-50, 50), n) if n <= 90 else rnd.sample(range(-n, 10 ** 7), n)
        if rnd.random() < 0.5:
            keys[rnd.randrange(n)] = 10 ** 9 + rnd.randrange(1000)
    aid_style = rnd.choice(['absent', 'identity', 'perm', 'perm', 'partial', 'dups', 'gaps', 'zero-based'])
    ids = {}
    if aid_style == 'identity':
        ids = {k: i + 1 for i, k in enumerate(keys)}
    elif aid_style == 'perm':
        p = list(range(1, n + 1))
        rnd.shuffle(p)
        ids = dict(zip(keys, p))
    elif aid_style == 'partial':
        p = rnd.sample(range(1, 3 * n + 2), n)
        ids = {k: v for k, v in zip(keys, p) if rnd.random() < 0.6}
    elif aid_style == 'dups':
        ids = {k: rnd.randint(1, max(1, n // 2)) for k in keys}
    elif aid_style == 'gaps':
        ids = dict(zip(keys, rnd.sample(range(5, 4 * n + 10), n)))
    elif aid_style == 'zero-based':
        p = list(range(n))
        rnd.shuffle(p)
        ids = dict(zip(keys, p))
    cm = rnd.choice(['both', 'both', 'charge', 'neither', 'mixed', 'mass-only-some'])
    atoms = []
    resid = rnd.choice([0, 0, -3]) if rnd.random() < 0.15 else rnd.randint(1, 5)
    for i, k in enumerate(keys):
        if rnd.random() < 0.3:
            resid += rnd.choice([1, 1, 2, 10])
        a = {'atype': rnd.choice(['P1', 'Qd', 'SC4', 'TN6d', 'C1', 'opls_135']), 'resid': resid,
             'resname': rnd.choice(['ALA', 'GLY', 'LYS', 'POPC', 'W']), 'atomname': rnd.choice(['BB', 'SC1', 'SC2', 'CA', 'H%d' % i]),
             'charge_group': rnd.randint(1, n)}
        if k in ids:
            a['atomid'] = ids[k]
        has_c = cm in ('both', 'charge') or (cm == 'mixed' and rnd.random() < 0.5)
        has_m = cm == 'both' or (cm == 'mixed' and has_c and rnd.random() < 0.5) or \
            (cm == 'mass-only-some' and rnd.random() < 0.3)
        if cm == 'mass-only-some':
            has_c = (not has_m) and rnd.random() < 0.5
        if has_c:
            a['charge'] = rnd.choice([0, 0.0, 1.0, -1.0, 0.5, -0.25, 1, 1 / 3, -1 / 6, 4e-05, -0.123456, 0.30000000000000004])
        if has_m:
            a['mass'] = rnd.choice([72, 72.0, 36.0, 54.5, 0, 1.00794, 14.00674, 36.46094, 1e-06])
        atoms.append((k, a))
    inter = []
    nint = 0 if rnd.random() < 0.08 else (rnd.randint(1, 60) if not big else 200)
    types = rnd.sample(sorted(ARITY), rnd.randint(1, 6))
    for _ in range(nint):
        t = rnd.choice(types)
        lo, hi = ARITY[t]
        ar = rnd.randint(lo, hi)
        at = [rnd.choice(keys) for _ in range(ar)] if (n < ar or rnd.random() < 0.1) else rnd.sample(keys, ar)
        if inter and rnd.random() < 0.1:
            prev = rnd.choice(inter)
            if prev['type'] == t:
                at = list(prev['atoms'])
        params = [rnd.choice(['1', '2', '0.47', '1250', '-0.5', '180.0', 'gb_21', '1e-05']) for _ in range(rnd.randint(0, 4))]
        if rnd.random() < 0.2:
            params = [rnd.choice([1, 2, 0.33, 700, 1e-05, -3, 0, 0.0, False, '']) for _ in range(rnd.randint(1, 3))]
            if params[-1] == '':
                params[-1] = 0     # an empty trailing token would vanish on any whitespace reader
        meta = {}
        r = rnd.random()
        if r < 0.15:
            meta['ifdef'] = rnd.choice(MACROS)
        elif r < 0.3:
            meta['ifndef'] = rnd.choice(MACROS)
        if rnd.random() < 0.2:
            meta['group'] = rnd.choice(['Backbone bonds', 'Rubber band', 'Side chain'])
        if rnd.random() < 0.15:
            meta['comment'] = rnd.choice(['a comment', 'BB-SC1', '1 2 3'])
        if rnd.random() < 0.15:
            meta['version'] = rnd.randint(1, 3)
        inter.append({'type': t, 'atoms': at, 'params': params, 'meta': meta})
    both = rnd.random() < 0.03 and inter
    if both:
        inter[rnd.randrange(len(inter))]['meta'].update({'ifdef': 'A', 'ifndef': 'B'})
    extra = {}
    if rnd.random() < 0.3:
        sec = rnd.choice(types + ['atoms', 'settles'])
        extra['post'] = {sec: ['; post line', '#include "extra_%s.itp"' % sec][:rnd.randint(1, 2)]}
    if rnd.random() < 0.3:
        sec = rnd.choice(types + ['atoms'])
        extra['pre'] = {sec: ['; pre line for %s' % sec]}
    if rnd.random() < 0.2:
        extra['define'] = {'POSRES_FC': rnd.choice([1000, '500'])}
    hist = rnd.choice(['none', 'none', 'remove', 'merge']) if not big else 'none'
    # interaction types whose list exists but is empty when the molecule is written: merely read (the table is a defaultdict)
    # or emptied by removing every interaction of the type
    touch = rnd.sample(types + ['dihedrals', 'impropers', 'bonds'], rnd.randint(1, 3)) if rnd.random() < 0.3 else []
    empty = rnd.sample(sorted({i['type'] for i in inter}), 1) if inter and rnd.random() < 0.2 else []
    return {'atoms': atoms, 'inter': inter, 'nrexcl': rnd.randint(0, 3), 'moltype': rnd.choice(['mol_0', 'Protein_A', 'X']),
            'extra': extra, 'expect_error': bool(both), 'history': hist, 'touch': touch, 'empty': empty, 'hseed': rnd.randrange(10 ** 6),
            'moltype_arg': rnd.random() < 0.5,
            # the same object written a second time after it changed (atoms renumbered, added, removed): the file states the molecule
            # as it is when written
            'rewrite': rnd.choice([None, None, 'renumber', 'add-node', 'remove-node', 'drop-atomid']) if not big else None}


def build(case):
    import random
    from vermouth.forcefield import ForceField
    from vermouth.molecule import Interaction, Molecule
    mol = Molecule(force_field=ForceField(name='verif_c02'), nrexcl=case['nrexcl'])
    for k, a in case['atoms']:
        mol.add_node(k, **a)
    for it in case['inter']:
        mol.add_interaction(it['type'], it['atoms'], list(it['params']), meta=dict(it['meta']))
    if case['history'] == 'remove' and len(mol) > 2:
        r = random.Random(case['hseed'])
        for k in r.sample(list(mol.nodes), r.randint(1, max(1, len(mol) // 4))):
            mol.remove_node(k)
    elif case['history'] == 'merge':
        other = mol.copy()
        mol.merge_molecule(other)
    for t in case.get('empty', []):
        for it in list(mol.interactions.get(t, [])):
            mol.remove_matching_interaction(t, Interaction(atoms=tuple(it.atoms), parameters=[], meta={}))
    for t in case.get('touch', []):
        mol.interactions[t]
    if not case['moltype_arg']:
        mol.meta['moltype'] = case['moltype']
    ex = case['extra']
    if 'define' in ex:
        mol.meta['define'] = dict(ex['define'])
    return mol


def expected_from_memory(mol):
    """Read the molecule in memory (plain networkx / attribute access only)."""
    order = list(mol.nodes)
    pos = {k: i for i, k in enumerate(order)}
    srt = sorted(order, key=lambda k: (mol.nodes[k]['atomid'] if 'atomid' in mol.nodes[k] else float('inf'), pos[k]))
    index = {k: i + 1 for i, k in enumerate(srt)}
    rows = []
    for k in srt:
        d = mol.nodes[k]
        rows.append({'nr': str(index[k]), 'type': str(d['atype']), 'resnr': str(d['resid']), 'residue': str(d['resname']),
                     'atom': str(d['atomname']), 'cgnr': str(d['charge_group']),
                     'charge': str(d['charge']) if 'charge' in d else None,
                     'mass': str(d['mass']) if 'mass' in d else None})
    sections = {}
    for t, lst in mol.interactions.items():
        sec = 'dihedrals' if t == 'impropers' else t
        for it in lst:
            idx = [str(index[a]) for a in it.atoms]
            par = ' '.join(str(p) for p in it.parameters).split()
            toks = ([idx[0]] + par + idx[1:]) if t == 'virtual_sitesn' else idx + par
            g = None
            if it.meta.get('ifdef') is not None:
                g = (it.meta['ifdef'], True)
            elif it.meta.get('ifndef') is not None:
                g = (it.meta['ifndef'], False)
            sections.setdefault(sec, []).append((tuple(toks), g))
    return srt, rows, sections


def change(case, mol):
    """Change the molecule that was just written, through the public graph interface."""
    import random
    r = random.Random(case['hseed'] + 1)
    op = case['rewrite']
    nodes = list(mol.nodes)
    if op == 'renumber':
        ids = list(range(1, len(nodes) + 1))
        r.shuffle(ids)
        for k, i in zip(nodes, ids):
            mol.nodes[k]['atomid'] = i
    elif op == 'drop-atomid':
        for k in r.sample(nodes, r.randint(1, len(nodes))):
            mol.nodes[k].pop('atomid', None)
    elif op == 'remove-node' and len(nodes) > 2:
        mol.remove_node(r.choice(nodes))
    else:
        new = max(k for k in nodes) + r.randint(1, 5)
        attrs = dict(mol.nodes[r.choice(nodes)])
        attrs.update({'atomname': 'NEW', 'charge_group': len(nodes) + 1})
        if r.random() < 0.7:
            attrs['atomid'] = r.choice([0, -1, 1, len(nodes) + 1])     # usually sorts before atoms already there
        else:
            attrs.pop('atomid', None)
        mol.add_node(new, **attrs)
        mol.add_interaction('bonds', (new, r.choice(nodes)), ['1', '0.3', '1000'])


def check(case):
    """-> (problem or None, nontrivial, features)"""
    mol = build(case)
    problem, nontrivial, feats = check_mol(case, mol)
    if problem is None and case.get('rewrite') and 'mass_without_charge' not in feats and 'both_ifdef_ifndef' not in feats:
        change(case, mol)
        problem, nt2, f2 = check_mol(case, mol)
        feats['second_write_after_' + case['rewrite']] = 1
        if problem and not ('mass_without_charge' in f2 or 'both_ifdef_ifndef' in f2):
            problem = ('rewrite/' + problem[0], dict(problem[1], after=case['rewrite']))
    return problem, nontrivial, feats


def check_mol(case, mol):
    from vermouth.gmx.itp import write_molecule_itp
    srt, rows, sections = expected_from_memory(mol)
    ex = case['extra']
    buf = io.StringIO()
    kw = {}
    if case['moltype_arg']:
        kw['moltype'] = case['moltype']
    if 'post' in ex:
        kw['post_section_lines'] = ex['post']
    if 'pre' in ex:
        kw['pre_section_lines'] = ex['pre']
    feats = {}
    try:
        write_molecule_itp(mol, buf, header=['generated by verif', 'second line'], **kw)
        raised = None
    except Exception as e:  # pylint: disable=broad-except
        raised = e
    expect_error = any(it.meta.get('ifdef') is not None and it.meta.get('ifndef') is not None
                       for lst in mol.interactions.values() for it in lst)
    mass_only = any('mass' in d and 'charge' not in d for _, d in mol.nodes(data=True))
    if mass_only and not expect_error:
        # positional format: a mass without a charge cannot be stated; anything but a refusal misstates the atom
        feats['mass_without_charge'] = 1
        if not isinstance(raised, ValueError):
            return ('atoms/mass-without-charge', {'text': buf.getvalue()[:600], 'raised': repr(raised)}), False, feats
        return None, False, feats
    if expect_error:
        feats['both_ifdef_ifndef'] = 1
        if not isinstance(raised, ValueError):
            return ('guard/both-not-rejected', {'text': buf.getvalue()[:500], 'raised': repr(raised)}), False, feats
        return None, False, feats
    if raised is not None:
        return ('writer-raised', {'error': repr(raised)}), False, feats
    text = buf.getvalue()
    try:
        parsed = itpread.parse(text)
    except itpread.ItpSyntaxError as e:
        return ('unparsable', {'error': str(e), 'text': text[:1500]}), False, feats
    if len(parsed['moleculetypes']) != 1:
        return ('moleculetype-count', {'n': len(parsed['moleculetypes'])}), False, feats
    mt = parsed['moleculetypes'][0]
    if mt['name'] != case['moltype'] or mt['nrexcl'] != str(case['nrexcl']):
        return ('moleculetype-line', {'observed': [mt['name'], mt['nrexcl']]}), False, feats
    order_differs = srt != list(mol.nodes)
    keys_differ = list(mol.nodes) != list(range(1, len(mol) + 1))
    nint = sum(len(v) for v in sections.values())
    nontrivial = (order_differs or keys_differ) and nint > 0
    feats['order_differs_from_node_order'] = int(order_differs)
    feats['keys_not_1_to_N'] = int(keys_differ)
    feats['history_' + case['history']] = 1
    if len(mt['atoms']) != len(rows):
        return ('atoms/count', {'observed': len(mt['atoms']), 'expected': len(rows)}), nontrivial, feats
    for k, (toks, want) in enumerate(zip(mt['atoms'], rows), 1):
        try:
            got = itpread.atom_row(toks)
        except itpread.ItpSyntaxError as e:
            return ('atoms/row', {'row': toks, 'error': str(e)}), nontrivial, feats
        if got != want:
            if want['charge'] is None and want['mass'] is not None:
                key = 'atoms/mass-without-charge'
            elif got['nr'] != want['nr']:
                key = 'atoms/numbering'
            else:
                key = 'atoms/fields'
            return (key, {'row': k, 'observed': got, 'expected': want}), nontrivial, feats
    obs_sections = {s: sorted(((tuple(t), g) for t, g, _ in lst), key=repr) for s, lst in mt['sections'].items() if lst}
    exp_sections = {s: sorted(lst, key=repr) for s, lst in sections.items() if lst}
    if obs_sections != exp_sections:
        detail = {}
        for s in sorted(set(obs_sections) | set(exp_sections)):
            o, e = obs_sections.get(s, []), exp_sections.get(s, [])
            if o != e:
                oo, ee = list(o), list(e)
                for x in list(oo):
                    if x in ee:
                        ee.remove(x)
                        oo.remove(x)
                detail[s] = {'only_in_file': oo[:5], 'only_in_memory': ee[:5]}
        return ('interactions', detail), nontrivial, feats
    for s in exp_sections:
        feats['section_' + s] = 1
    if any(g for lst in exp_sections.values() for _, g in lst):
        feats['with_guards'] = 1
    return None, nontrivial, feats


def cases(tier, seed):
    nb, per = (32, 160) if tier == 'quick' else (128, 1300)
    out = [{'seed': seed, 'batch': b, 'n': per} for b in range(nb)]
    if tier == 'thorough':
        out += [{'seed': seed, 'batch': 1000 + b, 'n': 1, 'big': True} for b in range(6)]
    return out


def run_case(params):
    rnd = harness.rng('C02', params['seed'], params['batch'])
    b = harness.Batch()
    for j in range(params['n']):
        case = gen(rnd, big=params.get('big', False))
        problem, nontrivial, f = check(case)
        b.hits += 1
        b.feat(f)
        small = len(case['atoms']) <= 60
        if nontrivial:
            b.nontrivial([case['atoms'], case['inter']] if small else params,
                         case if len(case['atoms']) <= 8 else None)
        if problem:
            b.violation(problem[0], 'written ITP differs from the molecule in memory (%s)' % problem[0],
                        {'subcase': j, 'detail': problem[1], 'case': case if small else 'big'})
    return b.result()
