"""C01 - resolution transformation conserves atoms, residues and connectivity.

Events : the molecule returned by do_mapping (node order, atomname, resname, resid, _old_resid, graph,
         mapping_weights, edges, interactions) and every record on logger 'vermouth'.
Oracle : reference mapper: placements by an independent backtracking matcher, ordered by lowest matched key, one copy
         of the target block each, consecutive resids, exact {atom: weight} tables, inter-placement edges iff
         explicitly mapped constituents are bonded, warnings for uncovered non-hydrogen atoms and overlaps.
         Real shipped mappings are checked with model-free invariants.
"""
import itertools

import numpy as np

from .. import harness, util
from ..oracles import match

PROPERTY = 'C01'
LEVEL = 'exploration'
RULE = ('(a) synthetic pairs of force fields: 1-4 residue types, from-blocks of 2-7 atoms (trees, rings), to-blocks of '
        '1-4 particles with bonds and angles; mappings with one-to-one, many-to-one, shared atoms, zero weights (also '
        'particles made only of zero-weight atoms), particles built from no atom, unmapped leaf atoms (H and non-H), '
        'rarely unmapped interior atoms; molecules of 1-12 residues, linear / branched / cross-linked, node keys sparse, '
        'sorted or shuffled, residue numbers with gaps. (b) charmm peptides (1-6 residues, termini modifications) '
        'through RepairGraph + CanonicalizeModifications and the shipped charmm->martini3001/martini22/elnedyn22 '
        'mappings, checked with invariants only. Non-trivial = >= 2 placements and >= 1 inter-placement input bond. '
        'distinct = distinct (force fields, molecule) hashes. Also: two-residue (multi-residue) mappings whose pattern and target block span a bonded pair of residues that have no mapping of their own; atoms renamed upstream that are matched on _old_atomname; residues that share their number and differ in the insertion code; a second (alternative) mapping for one residue type on the same atoms; mappings with reference atoms; a modification mapping that adds a particle, anywhere in the chain.')
ASSUMPTIONS = ['when placements overlap or tie on their lowest key the order/attributes are ambiguous: only counts and the '
               'inconsistent-data warning are checked',
               'no demand on attributes other than atomname, resname, resid, _old_resid, graph, mapping_weights',
               'modification mappings are only covered by the invariants of part (b)']
MIN_HITS = {'quick': 3500, 'thorough': 70000}
CASE_TIMEOUT = 900


def hash_int(obj):
    return int(harness.h(obj), 16)


def res_id(mol, n):
    d = mol.nodes[n]
    return (d['resid'], d.get('insertion_code') or '')


def gen_case(rnd):
    """JSON-able description of two toy force fields, the mappings and a molecule."""
    nres = rnd.randint(1, 4)
    resdefs = {}
    for r in range(nres):
        name = 'R%d' % r
        na = rnd.randint(2, 7)
        # random tree via random attachment (+ optional ring closure)
        edges = [(i, rnd.randrange(i)) for i in range(1, na)]
        if na > 3 and rnd.random() < 0.4:
            u, v = rnd.sample(range(na), 2)
            if (u, v) not in edges and (v, u) not in edges:
                edges.append((u, v))
        deg = {i: 0 for i in range(na)}
        for u, v in edges:
            deg[u] += 1
            deg[v] += 1
        anames = ['%s%d' % (rnd.choice('CNOH'), i) for i in range(na)]
        nb = rnd.randint(1, 4)
        bnames = ['B%d' % i for i in range(nb)]
        mp = {}
        unmapped = []
        for i, an in enumerate(anames):
            if rnd.random() < 0.15 and len(anames) - len(unmapped) > 1 and (deg[i] == 1 or rnd.random() < 0.1):
                unmapped.append(an)
                continue
            k = 1 if rnd.random() < 0.7 else min(nb, 2)
            tos = rnd.sample(bnames, k)
            mp[an] = {b: rnd.choice([0, 1, 1, 2, 3]) for b in tos}
        if rnd.random() < 0.15 and nb > 1:
            # a particle made only of zero-weight atoms
            b = rnd.choice(bnames)
            for an in mp:
                if b in mp[an]:
                    mp[an][b] = 0
        if rnd.random() < 0.2 and nb > 1:
            sp = bnames[-1]      # particle built from no atom
            for an in mp:
                mp[an].pop(sp, None)
            mp = {a: d for a, d in mp.items() if d}
        if not mp:
            mp = {anames[0]: {bnames[0]: 1}}
        resdefs[name] = {'anames': anames, 'edges': [[anames[u], anames[v]] for u, v in edges], 'bnames': bnames, 'mp': mp,
                         'angles': nb >= 3 and rnd.random() < 0.5}
    L = rnd.randint(1, 12)

    def disconnected(rd):
        nodes = set(rd['mp'])
        if not nodes:
            return False
        adj = {n: set() for n in nodes}
        for u, v in rd['edges']:
            if u in nodes and v in nodes:
                adj[u].add(v)
                adj[v].add(u)
        seen = set()
        todo = [next(iter(sorted(nodes)))]
        while todo:
            x = todo.pop()
            if x not in seen:
                seen.add(x)
                todo.extend(adj[x] - seen)
        return seen != nodes
    if any(disconnected(rd) for rd in resdefs.values()):
        L = min(L, 3)    # disconnected patterns have combinatorially many placements
    seq = [rnd.choice(sorted(resdefs)) for _ in range(L)]
    # multi-residue mapping: two residue types are mapped only together, as a pair of bonded residues X-Y (pattern and target
    # block span two residues); X and Y have no mapping of their own, so stray X / Y residues stay unmapped
    pair = None
    pair_at = None
    if nres >= 2 and rnd.random() < 0.35:
        X, Y = rnd.sample(sorted(resdefs), 2)
        pair = {'x': X, 'y': Y, 'link': [rnd.choice(sorted(resdefs[X]['mp'])), rnd.choice(sorted(resdefs[Y]['mp']))]}
        if L < 2:
            L = 2
            seq = seq + [Y]
        for _ in range(rnd.randint(1, 2)):
            pair_at = rnd.randrange(L - 1)
            seq[pair_at], seq[pair_at + 1] = X, Y
    nkeys = sum(len(resdefs[s]['anames']) for s in seq)
    keys = rnd.sample(range(5 * nkeys + 5), nkeys)
    if rnd.random() < 0.7:
        keys.sort()
    resids = sorted(rnd.sample(range(1, 80), L))
    # residues sharing their number with the previous one, told apart by an insertion code (52, 52A, 52B)
    icodes = [''] * L
    for i in range(1, L):
        if rnd.random() < 0.12:
            resids[i] = resids[i - 1]
            icodes[i] = 'ABCDEFGHIJKLMNOP'[i % 16]
    atoms = []
    ki = iter(keys)
    key = {}
    for ri, rname in enumerate(seq):
        order = list(resdefs[rname]['anames'])
        if rnd.random() < 0.5:
            rnd.shuffle(order)
        for an in order:
            k = next(ki)
            key['%d/%s' % (ri, an)] = k
            atoms.append([k, ri, an])
    inter = []
    for ri in range(1, L):
        rj = rnd.randrange(ri) if rnd.random() < 0.3 else ri - 1
        inter.append([[ri, rnd.choice(resdefs[seq[ri]]['anames'])], [rj, rnd.choice(resdefs[seq[rj]]['anames'])]])
    if pair:
        # every X directly followed by Y is joined by the pair's link bond (most of the time)
        for ri in range(1, L):
            if seq[ri - 1] == pair['x'] and seq[ri] == pair['y'] and rnd.random() < 0.85:
                inter[ri - 1] = [[ri, pair['link'][1]], [ri - 1, pair['link'][0]]]
    if L > 2 and rnd.random() < 0.3:
        ri, rj = rnd.sample(range(L), 2)
        inter.append([[ri, rnd.choice(resdefs[seq[ri]]['anames'])], [rj, rnd.choice(resdefs[seq[rj]]['anames'])]])
    if rnd.random() < 0.2:
        # atoms that were renamed upstream (a modification's replace: atomname): they show another atomname and remember the
        # canonical one as _old_atomname, which is what mappings are matched on
        rname = rnd.choice(seq)
        an = rnd.choice(resdefs[rname]['anames'])
        everywhere = rnd.random() < 0.6
        for a in atoms:
            if seq[a[1]] == rname and a[2] == an and (everywhere or rnd.random() < 0.5):
                a.append(an[0] + 'Z9')
    out = {'resdefs': resdefs, 'seq': seq, 'resids': resids, 'icodes': icodes, 'atoms': atoms, 'inter': inter,
           'tag': rnd.randrange(10 ** 9)}
    if pair:
        out['pair'] = pair
    out['refs'] = rnd.random() < 0.3
    out['noelem'] = rnd.random() < 0.25
    free = [r for r in sorted(resdefs) if not (pair and r in (pair['x'], pair['y']))]
    if free and rnd.random() < 0.15:
        # a second mapping for one residue type (an alternative representation from an extra mapping directory): it fits wherever the
        # first one fits, on exactly the same atoms (or on some of them); both target blocks are due, and the overlap is reported
        of = rnd.choice(free)
        mapped = sorted(resdefs[of]['mp'])
        chosen = mapped if rnd.random() < 0.6 else rnd.sample(mapped, rnd.randint(1, len(mapped)))
        nb = rnd.randint(1, 2)
        out['alt'] = {'of': of, 'bnames': ['Q%d' % i for i in range(nb)], 'mp': {a: {'Q%d' % rnd.randrange(nb): 1} for a in chosen}}
    return out


def build(case):
    from vermouth.forcefield import ForceField
    from vermouth.map_parser import Mapping
    from vermouth.molecule import Block, Molecule
    ffa = ForceField(name='aa%d' % case['tag'])
    ffb = ForceField(name='cg%d' % case['tag'])
    mappings = {}
    for name, rd in case['resdefs'].items():
        ba = Block(force_field=ffa)
        ba.name = name
        ba.nrexcl = 1
        for an in rd['anames']:
            ba.add_atom({'atomname': an, 'resname': name, 'resid': 1, 'atype': 'x', 'charge_group': 1, 'element': an[0]})
        for u, v in rd['edges']:
            ba.add_edge(u, v)
        ffa.blocks[name] = ba
        bb = Block(force_field=ffb)
        bb.name = name
        bb.nrexcl = 1
        bn = rd['bnames']
        for i, b in enumerate(bn):
            bb.add_atom({'atomname': b, 'resname': name, 'resid': 1, 'atype': 'P%d' % i, 'charge_group': i + 1, 'charge': float(i)})
        for x, y in zip(bn, bn[1:]):
            bb.add_edge(x, y)
            bb.add_interaction('bonds', [x, y], ['1', '0.3', '100'])
        if rd['angles']:
            for x, y, z in zip(bn, bn[1:], bn[2:]):
                bb.add_interaction('angles', [x, y, z], ['2', '120', '25'])
        ffb.blocks[name] = bb
        if not (case.get('pair') and name in (case['pair']['x'], case['pair']['y'])):
            # reference atoms: some particles take their kept attributes (chain) from ONE named atom instead of from all constituents
            refs = {}
            if case.get('refs'):
                for b_ in rd['bnames']:
                    cons_ = sorted(a for a, w in rd['mp'].items() if b_ in w)
                    if cons_ and (hash_int([name, b_, case['tag']]) % 3 == 0):
                        refs[b_] = cons_[hash_int([b_, case['tag']]) % len(cons_)]
            mappings[name] = Mapping(ba, bb, {a: dict(d) for a, d in rd['mp'].items()}, refs, ff_from=ffa, ff_to=ffb, extra=(),
                                     names=(name,))
    if case.get('alt'):
        alt = case['alt']
        bb = Block(force_field=ffb)
        bb.name = alt['of'] + 'alt'
        bb.nrexcl = 1
        for i, b_ in enumerate(alt['bnames']):
            bb.add_atom({'atomname': b_, 'resname': alt['of'], 'resid': 1, 'atype': 'Q%d' % i, 'charge_group': i + 1, 'charge': 0.0})
        for x, y in zip(alt['bnames'], alt['bnames'][1:]):
            bb.add_edge(x, y)
            bb.add_interaction('bonds', [x, y], ['1', '0.3', '100'])
        ffb.blocks[bb.name] = bb
        mappings[bb.name] = Mapping(ffa.blocks[alt['of']], bb, {a: dict(d) for a, d in alt['mp'].items()}, {}, ff_from=ffa, ff_to=ffb,
                                    extra=(), names=(alt['of'],))
    if case.get('pair'):
        pr = case['pair']
        ba = Block(force_field=ffa)
        ba.nrexcl = 1
        bb = Block(force_field=ffb)
        bb.nrexcl = 1
        mp = {}
        for loc, rname in enumerate((pr['x'], pr['y'])):
            rd = case['resdefs'][rname]
            t = 'xy'[loc]
            for an in rd['anames']:
                ba.add_node('%s:%s' % (t, an), atomname=an, resname=rname, resid=loc + 1, atype='x', charge_group=1, element=an[0])
            for u, v in rd['edges']:
                ba.add_edge('%s:%s' % (t, u), '%s:%s' % (t, v))
            bn = rd['bnames']
            for i, b_ in enumerate(bn):
                bb.add_node('%s:%s' % (t, b_), atomname=b_, resname=rname, resid=loc + 1, atype='P%d' % i, charge_group=i + 1, charge=float(i))
            for x, y in zip(bn, bn[1:]):
                bb.add_edge('%s:%s' % (t, x), '%s:%s' % (t, y))
                bb.add_interaction('bonds', ['%s:%s' % (t, x), '%s:%s' % (t, y)], ['1', '0.3', '100'])
            if rd['angles']:
                for x, y, z in zip(bn, bn[1:], bn[2:]):
                    bb.add_interaction('angles', ['%s:%s' % (t, q) for q in (x, y, z)], ['2', '120', '25'])
            for a, d in rd['mp'].items():
                mp['%s:%s' % (t, a)] = {'%s:%s' % (t, k): w for k, w in d.items()}
        ba.add_edge('x:' + pr['link'][0], 'y:' + pr['link'][1])
        lastx = 'x:' + case['resdefs'][pr['x']]['bnames'][-1]
        firsty = 'y:' + case['resdefs'][pr['y']]['bnames'][0]
        bb.add_edge(lastx, firsty)
        bb.add_interaction('bonds', [lastx, firsty], ['1', '0.4', '200'])
        mappings['%s+%s' % (pr['x'], pr['y'])] = Mapping(ba, bb, mp, {}, ff_from=ffa, ff_to=ffb, extra=(), names=(pr['x'], pr['y']))
    mol = Molecule(force_field=ffa, nrexcl=1)
    key = {}
    for entry in case['atoms']:
        k, ri, an = entry[:3]
        key[(ri, an)] = k
        mol.add_node(k, atomname=an, resname=case['seq'][ri], resid=case['resids'][ri], chain='A', element=an[0],
                     position=np.array([(k * 7 % 13) / 13.0, (k * 5 % 11) / 11.0, (k * 3 % 7) / 7.0]))
        if case.get('icodes') and case['icodes'][ri]:
            mol.nodes[k]['insertion_code'] = case['icodes'][ri]
        if case.get('noelem') and hash_int([k, case['tag']]) % 9 == 0 and not an.startswith('H'):
            # hand-built molecules: some non-hydrogen atoms carry no element attribute at all, or an empty one
            if hash_int([k, 'e']) % 2:
                del mol.nodes[k]['element']
            else:
                mol.nodes[k]['element'] = ''
        if len(entry) > 3:
            mol.nodes[k]['atomname'] = entry[3]
            mol.nodes[k]['_old_atomname'] = an
    for ri, rname in enumerate(case['seq']):
        for u, v in case['resdefs'][rname]['edges']:
            mol.add_edge(key[(ri, u)], key[(ri, v)])
    for (ri, a), (rj, b) in case['inter']:
        mol.add_edge(key[(ri, a)], key[(rj, b)])
    return ffa, ffb, {ffa.name: {ffb.name: mappings}}, mol


def placements_of(case, mol):
    """All placements of all mappings by the independent matcher (mapped atoms only, induced,
    pattern edges intra-residue <=> matched edges intra-residue)."""
    import networkx as nx
    out = []
    pair = case.get('pair')
    defs = [(rname, rd, rname) for rname, rd in sorted(case['resdefs'].items())]
    if case.get('alt'):
        of = case['alt']['of']
        defs.append(('+ALT', dict(case['resdefs'][of], mp=case['alt']['mp']), of))
    for label, rd, rname in defs:
        if pair and rname in (pair['x'], pair['y']):
            continue
        P = nx.Graph()
        P.add_nodes_from(rd['mp'])
        P.add_edges_from((u, v) for u, v in rd['edges'] if u in rd['mp'] and v in rd['mp'])

        def node_ok(g, p, rname=rname):
            d = mol.nodes[g]
            return d.get('_old_atomname', d['atomname']) == p and d['resname'] == rname and d.get('element') == p[0]

        def edge_ok(g1, g2, p1, p2):
            return res_id(mol, g1) == res_id(mol, g2)
        for m in match.induced_isos(mol, P, node_ok, edge_ok):
            out.append((min(m.values()), label, dict(m)))
    if pair:
        P = nx.Graph()
        for loc, rname in enumerate((pair['x'], pair['y'])):
            rd = case['resdefs'][rname]
            t = 'xy'[loc]
            for a in rd['mp']:
                P.add_node('%s:%s' % (t, a), an=a, rn=rname, loc=loc)
            P.add_edges_from(('%s:%s' % (t, u), '%s:%s' % (t, v)) for u, v in rd['edges'] if u in rd['mp'] and v in rd['mp'])
        P.add_edge('x:' + pair['link'][0], 'y:' + pair['link'][1])

        def node_ok2(g, p):
            d = mol.nodes[g]
            q = P.nodes[p]
            return d.get('_old_atomname', d['atomname']) == q['an'] and d['resname'] == q['rn'] and d.get('element') == q['an'][0]

        def edge_ok2(g1, g2, p1, p2):
            # an edge inside one residue of the pattern must lie inside one residue of the molecule, and vice versa
            return (res_id(mol, g1) == res_id(mol, g2)) == (P.nodes[p1]['loc'] == P.nodes[p2]['loc'])
        for m in match.induced_isos(mol, P, node_ok2, edge_ok2):
            out.append((min(m.values()), '+PAIR', dict(m)))
    return out


def expected(case, mol):
    pl = placements_of(case, mol)
    mins = [p[0] for p in pl]
    ambiguous = len(set(mins)) != len(mins)
    pl.sort(key=lambda p: p[0])
    flat = [k for p in pl for k in p[2].values()]
    overlap = len(set(flat)) != len(flat)
    particles = []
    resid = 0
    for pi, (_, rname, atoms) in enumerate(pl):
        parts = [(rname, '')] if rname != '+PAIR' else [(case['pair']['x'], 'x:'), (case['pair']['y'], 'y:')]
        for loc, (rn, pre) in enumerate(parts):
            if rn == '+ALT':
                rd = {'bnames': case['alt']['bnames'], 'mp': case['alt']['mp']}
                rn = case['alt']['of']
            else:
                rd = case['resdefs'][rn]
            resid += 1
            for b in rd['bnames']:
                cons = {atoms[pre + a]: w[b] for a, w in rd['mp'].items() if b in w}
                spawned = not cons
                if spawned:
                    cons = {k: 0 for k in atoms.values()}
                particles.append({'p': pi, 'bead': b, 'resname': rn, 'cons': cons, 'spawned': spawned, 'loc': loc,
                                  'olds': [mol.nodes[k]['resid'] for k in cons], 'resid': resid})
    return pl, particles, ambiguous, overlap


def check_synthetic(case, b):
    from vermouth.processors.do_mapping import do_mapping
    cap = util.capture()
    ffa, ffb, maps, mol = build(case)
    cap.clear()
    try:
        out = do_mapping(mol, maps, ffb, attribute_keep=('chain',), attribute_must=('resname',), attribute_stash=('resid',))
    except Exception as e:
        import traceback
        return ('exception/%s' % type(e).__name__, {'error': repr(e), 'trace': traceback.format_exc()[-700:]}), {}
    b.hits += 1
    pl, particles, ambiguous, overlap = expected(case, mol)
    incons = bool(cap.of_type('inconsistent-data'))
    unmapped_warn = bool(cap.of_type('unmapped-atom'))
    info = {'placements': len(pl), 'particles': len(particles), 'overlap': overlap, 'ambiguous': ambiguous,
            'pair_placements': sum(1 for x in pl if x[1] == '+PAIR')}
    nodes = list(out.nodes)
    covered = set()
    for p in particles:
        covered.update(p['cons'])
    unc = [k for k in mol.nodes if k not in covered and mol.nodes[k].get('element') != 'H']
    info['uncovered_nonH'] = len(unc)
    if bool(unc) != unmapped_warn:
        return ('warning/unmapped-atom', {'uncovered_non_hydrogen_atoms': unc[:6], 'warning_logged': unmapped_warn}), info
    if overlap and not incons:
        return ('warning/overlap-not-reported', {}), info
    if len(nodes) != len(particles):
        return ('particles/count', {'observed': len(nodes), 'expected': len(particles), 'placements': len(pl)}), info
    if ambiguous or overlap:
        return None, info
    for n, p in zip(nodes, particles):
        d = out.nodes[n]
        if d.get('atomname') != p['bead'] or d.get('resname') != p['resname']:
            return ('particles/order-or-name', {'node': n, 'observed': [d.get('atomname'), d.get('resname')],
                                                'expected': [p['bead'], p['resname']]}), info
        if d.get('resid') != p['resid']:
            return ('particles/resid', {'node': n, 'observed': d.get('resid'), 'expected': p['resid']}), info
        if d.get('_old_resid') not in p['olds']:
            return ('particles/old-resid', {'node': n, 'observed': d.get('_old_resid'), 'constituent_resids': p['olds']}), info
        if dict(d.get('mapping_weights', {})) != p['cons']:
            return ('particles/weights', {'node': n, 'bead': p['bead'], 'observed': dict(d.get('mapping_weights', {})),
                                          'expected': p['cons']}), info
        if set(d['graph'].nodes) != set(p['cons']):
            return ('particles/constituent-graph', {'node': n, 'observed': sorted(d['graph'].nodes), 'expected': sorted(p['cons'])}), info
    byp = {}
    for n, p in zip(nodes, particles):
        byp.setdefault(p['p'], []).append(n)
    exp_edges = set()
    exp_bonds = []
    exp_angles = []
    loc_of = {n: p.get('loc', 0) for n, p in zip(nodes, particles)}
    for pi, ns_all in byp.items():
        names_ = [pl[pi][1]] if pl[pi][1] != '+PAIR' else [case['pair']['x'], case['pair']['y']]
        groups = [[n for n in ns_all if loc_of[n] == loc] for loc in range(len(names_))]
        for rn, ns in zip(names_, groups):
            rd = case['resdefs'][rn] if rn != '+ALT' else {'angles': False}
            for x, y in zip(ns, ns[1:]):
                exp_edges.add(frozenset((x, y)))
                exp_bonds.append((x, y))
            if rd['angles']:
                for x, y, z in zip(ns, ns[1:], ns[2:]):
                    exp_angles.append((x, y, z))
        if len(groups) == 2:
            exp_edges.add(frozenset((groups[0][-1], groups[1][0])))
            exp_bonds.append((groups[0][-1], groups[1][0]))
    n_inter = 0
    for (n1, p1), (n2, p2) in itertools.combinations(zip(nodes, particles), 2):
        if p1['p'] == p2['p'] or p1['spawned'] or p2['spawned']:
            continue
        if any(mol.has_edge(a, c) for a in p1['cons'] for c in p2['cons']):
            exp_edges.add(frozenset((n1, n2)))
            n_inter += 1
    info['inter_placement_edges'] = n_inter
    got_edges = {frozenset(e) for e in out.edges}
    if got_edges != exp_edges:
        return ('connectivity', {'unexpected': [sorted(e) for e in list(got_edges - exp_edges)[:5]],
                                 'missing': [sorted(e) for e in list(exp_edges - got_edges)[:5]]}), info
    got_bonds = sorted(tuple(i.atoms) for i in out.interactions.get('bonds', []))
    got_angles = sorted(tuple(i.atoms) for i in out.interactions.get('angles', []))
    if got_bonds != sorted(exp_bonds) or got_angles != sorted(exp_angles):
        return ('block-interactions', {'bonds': [got_bonds[:6], sorted(exp_bonds)[:6]], 'angles': [got_angles[:4], sorted(exp_angles)[:4]]}), info
    return None, info


# ------------------------------------------------------------------ (a') modification mappings that add a particle
def check_mod_particle(rnd, b):
    """A chain of L residues RES (atoms A-B, mapped to one particle P); one or two residues carry the modification MOD (an atom X on
    B), whose mapping keeps P and ADDS a particle PX.  X is listed with its residue or at the end of the molecule.  Expected:
    residues numbered 1..L in order, PX numbered like the P it is attached to, input numbers retained as _old_resid."""
    from vermouth.forcefield import ForceField
    from vermouth.molecule import Block, Link, Molecule
    from vermouth.map_parser import Mapping
    from vermouth.processors.do_mapping import do_mapping
    ffa, ffb = ForceField(name='verif_c01_ma'), ForceField(name='verif_c01_mb')
    ba = Block(force_field=ffa)
    ba.name = 'RES'
    for an in 'AB':
        ba.add_atom({'atomname': an, 'resname': 'RES', 'resid': 1, 'atype': 'x', 'charge_group': 1})
    ba.add_edge('A', 'B')
    ffa.blocks['RES'] = ba
    bb = Block(force_field=ffb)
    bb.name = 'RES'
    bb.add_atom({'atomname': 'P', 'resname': 'RES', 'resid': 1, 'atype': 'P1', 'charge_group': 1})
    ffb.blocks['RES'] = bb
    m = Mapping(ba, bb, {'A': {'P': 1}, 'B': {'P': 1}}, {}, ff_from=ffa, ff_to=ffb, extra=(), names=('RES',))
    moda = Link(force_field=ffa)
    moda.name = 'MOD'
    moda.add_node('B', atomname='B', PTM_atom=False)
    moda.add_node('X', atomname='X', PTM_atom=True, element='X')
    moda.add_edge('B', 'X')
    ffa.modifications['MOD'] = moda
    modb = Link(force_field=ffb)
    modb.name = 'MOD'
    modb.add_node('P', atomname='P', PTM_atom=False)
    modb.add_node('PX', atomname='PX', PTM_atom=True, atype='Q', charge_group=1)
    modb.add_edge('P', 'PX')
    ffb.modifications['MOD'] = modb
    mm = Mapping(moda, modb, {'B': {'P': 1}, 'X': {'PX': 1}}, {}, ff_from=ffa, ff_to=ffb, extra=(), names=('MOD',), type='modification')
    maps = {ffa.name: {ffb.name: {'RES': m, ('MOD',): mm}}}
    L = rnd.randint(2, 7)
    start = rnd.choice([1, 5, 0, 40])
    modified = sorted(rnd.sample(range(L), rnd.choice([1, 1, 2]) if L > 2 else 1))
    # the atom X of a modified residue is listed with its residue, at the end of the molecule, or after the atoms of some later residue
    where = {ri: rnd.choice([ri, ri, L - 1, rnd.randint(ri, L - 1)]) for ri in modified}
    x_last = any(where[ri] != ri for ri in modified)
    mol = Molecule(force_field=ffa)
    k, prev = 0, None
    anchor = {}
    for ri in range(L):
        resid = start + ri
        a = k
        mol.add_node(k, atomname='A', resname='RES', resid=resid, chain='A', element='A')
        k += 1
        b_ = k
        mol.add_node(k, atomname='B', resname='RES', resid=resid, chain='A', element='B')
        k += 1
        mol.add_edge(a, b_)
        if prev is not None:
            mol.add_edge(prev, a)
        prev = b_
        if ri in modified:
            mol.nodes[a]['modifications'] = [moda]
            mol.nodes[b_]['modifications'] = [moda]
            anchor[ri] = b_
        for rj in modified:
            if where[rj] == ri:
                mol.add_node(k, atomname='X', resname='RES', resid=start + rj, chain='A', element='X', PTM_atom=True, modifications=[moda])
                mol.add_edge(anchor[rj], k)
                k += 1
    out = do_mapping(mol, maps, ffb, attribute_keep=('chain',), attribute_must=('resname',), attribute_stash=('resid',))
    b.hits += 1
    got = sorted((d.get('resid'), d.get('atomname'), d.get('_old_resid')) for n, d in out.nodes(data=True))
    want = sorted([(ri + 1, 'P', start + ri) for ri in range(L)] + [(ri + 1, 'PX', start + ri) for ri in modified])
    if got != want:
        return ('modification-particle/resid', {'observed_resid_name_oldresid': got, 'expected': want, 'modified_residues': modified,
                                                'ptm_atoms_listed_last': x_last})
    pe = {frozenset((out.nodes[u]['atomname'], out.nodes[u]['resid'], out.nodes[v]['atomname'], out.nodes[v]['resid'])) for u, v in out.edges}
    for ri in modified:
        if frozenset(('P', ri + 1, 'PX', ri + 1)) not in pe:
            return ('modification-particle/bond', {'residue': ri + 1, 'edges': [sorted(map(str, e)) for e in pe][:8]})
    return None


# ------------------------------------------------------------------ (b) real mappings: invariants
_REAL = {}


def real_setup(target):
    if 'all' not in _REAL:
        from pathlib import Path
        from vermouth.forcefield import find_force_fields
        from vermouth.graph_utils import add_element_attr
        from vermouth.map_input import read_mapping_directory
        known = find_force_fields(Path(util.data_path('force_fields')))
        for blk in known['charmm'].blocks.values():
            try:
                add_element_attr(blk)
            except ValueError:
                pass
        maps = read_mapping_directory(util.data_path('mappings'), known)
        _REAL['all'] = (known, maps)
    known, maps = _REAL['all']
    return known['charmm'], known[target], maps


def check_real(params, b):
    from vermouth.processors.canonicalize_modifications import CanonicalizeModifications
    from vermouth.processors.do_mapping import do_mapping
    from vermouth.processors.repair_graph import RepairGraph
    from ..gen import atomistic
    rnd = harness.rng('C01real', params['seed'])
    ff_from, ff_to, maps = real_setup(params['target'])
    names = [n for n in atomistic.aa_names(ff_from) if n in maps['charmm'][params['target']]]
    seq = [rnd.choice(names) for _ in range(params['L'])]
    mods = []
    if params['termini']:
        if seq[0] != 'PRO':
            mods.append((0, 'N-ter'))
        mods.append((len(seq) - 1, 'C-ter'))
    mol, truth = atomistic.build_peptide(ff_from, seq, rnd, mods=mods, resid_start=params['resid_start'], coords=True,
                                         key_start=params['key_start'])
    if params['branch'] and 'CYS' in seq and seq.count('CYS') >= 2:
        idx = [i for i, s in enumerate(seq) if s == 'CYS'][:2]
        mol.add_edge(truth['key'][(idx[0], 'SG')], truth['key'][(idx[1], 'SG')])
    cap = util.capture()
    try:
        rep = util.shared(RepairGraph, include_graph=False).run_molecule(mol)
        rep = util.shared(CanonicalizeModifications).run_molecule(rep)
    except Exception as e:
        return 'upstream', {'error': repr(e)}
    cap.clear()
    try:
        out = do_mapping(rep, maps, ff_to, attribute_keep=('chain', 'cgsecstruct'), attribute_must=('resname',),
                         attribute_stash=('resid',))
    except Exception as e:
        import traceback
        return ('real/exception/%s' % type(e).__name__, {'error': repr(e), 'trace': traceback.format_exc()[-700:], 'seq': seq}), {}
    b.hits += 1
    info = {'particles': len(out), 'seq': seq}
    warn_unmapped = bool(cap.of_type('unmapped-atom'))
    covered = set()
    prev_low = None
    resids = []
    for n, d in out.nodes(data=True):
        mw = d.get('mapping_weights')
        g = d.get('graph')
        if mw is None or g is None:
            return ('real/no-correspondence', {'node': n, 'atomname': d.get('atomname')}), info
        if set(g.nodes) != set(mw):
            return ('real/graph-vs-weights', {'node': n}), info
        if not set(mw) <= set(rep.nodes):
            return ('real/constituent-not-in-input', {'node': n}), info
        covered.update(mw)
        resids.append(d.get('resid'))
        olds = {rep.nodes[k].get('resid') for k in mw}
        if d.get('_old_resid') not in olds:
            return ('real/old-resid', {'node': n, 'observed': d.get('_old_resid'), 'constituents': sorted(olds)}), info
    unc = [k for k, d in rep.nodes(data=True) if k not in covered and d.get('element') != 'H']
    if unc and not warn_unmapped:
        return ('real/unmapped-atom-not-reported', {'atoms': [rep.nodes[k]['atomname'] for k in unc[:5]]}), info
    seen = []
    for r in resids:
        if not seen or seen[-1] != r:
            seen.append(r)
    if seen != list(range(1, len(seen) + 1)):
        return ('real/resids-not-consecutive', {'resids': seen[:12]}), info
    if len(seen) != len(seq):
        return ('real/residue-count', {'observed': len(seen), 'expected': len(seq)}), info
    # connectivity between residues: bonded particles of different residues must have bonded constituents, and
    # bonded input residues must give bonded output residues
    res_of = {n: d['resid'] for n, d in out.nodes(data=True)}
    for u, v in out.edges:
        if res_of[u] != res_of[v]:
            cu, cv = out.nodes[u]['mapping_weights'], out.nodes[v]['mapping_weights']
            if not any(rep.has_edge(a, c) for a in cu for c in cv):
                return ('real/unjustified-edge', {'particles': [out.nodes[u]['atomname'], out.nodes[v]['atomname']],
                                                  'resids': [res_of[u], res_of[v]]}), info
    old_of = {d['resid']: d['_old_resid'] for n, d in out.nodes(data=True)}
    new_of = {v: k for k, v in old_of.items()}
    out_pairs = {frozenset((res_of[u], res_of[v])) for u, v in out.edges if res_of[u] != res_of[v]}
    for u, v in rep.edges:
        ru, rv = rep.nodes[u]['resid'], rep.nodes[v]['resid']
        if ru != rv and u in covered and v in covered:
            if frozenset((new_of.get(ru), new_of.get(rv))) not in out_pairs:
                return ('real/inter-residue-bond-lost', {'input_resids': [ru, rv]}), info
    info['inter_residue_edges'] = len(out_pairs)
    return None, info


def average_bead_probe(rnd):
    """Used by C09: particles produced by the real do_mapping on a synthetic case, with their constituents."""
    from vermouth.processors.do_mapping import do_mapping
    case = gen_case(rnd)
    ffa, ffb, maps, mol = build(case)
    for k in list(mol.nodes):
        if rnd.random() < 0.15:
            mol.nodes[k]['position'] = None
    out = do_mapping(mol, maps, ffb, attribute_keep=('chain',), attribute_must=('resname',), attribute_stash=('resid',))
    return case, mol, out


def cases(tier, seed):
    nb, per = (32, 150) if tier == 'quick' else (128, 700)
    out = [{'kind': 'synthetic', 'seed': seed, 'batch': b, 'n': per} for b in range(nb)]
    nr = 96 if tier == 'quick' else 2400
    rnd = harness.rng('C01plan', seed)
    per_batch = 6 if tier == 'quick' else 25
    batch = []
    for i in range(nr):
        batch.append({'seed': rnd.randrange(10 ** 9), 'target': rnd.choice(['martini3001', 'martini22', 'elnedyn22']),
                      'L': rnd.randint(1, 6), 'termini': rnd.random() < 0.7, 'branch': rnd.random() < 0.5,
                      'resid_start': rnd.choice([1, 1, 17, 300]), 'key_start': rnd.choice([0, 0, 11])})
        if len(batch) == per_batch:
            out.append({'kind': 'real', 'items': batch})
            batch = []
    if batch:
        out.append({'kind': 'real', 'items': batch})
    return out


def run_case(params):
    b = harness.Batch()
    if params['kind'] == 'synthetic':
        rnd = harness.rng('C01', params['seed'], params['batch'])
        for j in range(params['n']):
            b.total += 1
            if j % 10 == 9:
                try:
                    pm = check_mod_particle(rnd, b)
                except Exception as e:
                    if not harness.from_repo(e):
                        raise
                    import traceback
                    pm = ('modification-particle/exception/%s' % type(e).__name__, {'error': repr(e), 'trace': traceback.format_exc()[-700:]})
                if pm:
                    b.violation(pm[0], 'mapped molecule differs from the reference mapper (%s)' % pm[0], {'subcase': j, 'detail': pm[1]})
                else:
                    b.feat('modification_mapping_adds_particle_cases')
                continue
            case = gen_case(rnd)
            try:
                with harness.sub_alarm(15):
                    p, info = check_synthetic(case, b)
            except harness.CaseTimeout:
                b.inconclusive('watchdog')
                continue
            if p:
                b.violation(p[0], 'mapped molecule differs from the reference mapper (%s)' % p[0],
                            {'subcase': j, 'detail': p[1], 'info': info, 'case': case})
                continue
            b.feat({'placements': info['placements'], 'overlap_cases': int(info['overlap']), 'ambiguous_order_cases': int(info['ambiguous']),
                    'uncovered_atom_cases': int(bool(info['uncovered_nonH'])),
                    'inter_placement_edges': info.get('inter_placement_edges', 0),
                    'multi_residue_mapping_cases': int(bool(case.get('pair'))),
                    'multi_residue_placements': info.get('pair_placements', 0),
                    'spawned_particle_cases': int(any(not any(bn in w for w in rd['mp'].values()) for rd in case['resdefs'].values() for bn in rd['bnames'])),
                    'zero_weight_only_particle_cases': int(any(all(w[bn] == 0 for w in rd['mp'].values() if bn in w) and any(bn in w for w in rd['mp'].values())
                                                               for rd in case['resdefs'].values() for bn in rd['bnames']))})
            if info['placements'] >= 2 and info.get('inter_placement_edges', 0) >= 1:
                b.nontrivial([case['resdefs'], case['seq'], case['atoms'], case['inter']],
                             {'sequence': case['seq'], 'resids': case['resids'], 'residue_types': case['resdefs'],
                              'inter_residue_bonds': case['inter'], 'observed': info})
    else:
        for j, item in enumerate(params['items']):
            b.total += 1
            try:
                with harness.sub_alarm(60):
                    p, info = check_real(item, b)
            except harness.CaseTimeout:
                b.inconclusive('watchdog')
                continue
            if p == 'upstream':
                b.feat('upstream_' + info['error'][:60])
                b.inconclusive('upstream-processor-failed')
                continue
            if p:
                b.violation(p[0], 'mapped molecule violates an invariant (%s)' % p[0], {'item': item, 'detail': p[1], 'info': info})
                continue
            b.feat({'real_cases': 1, 'real_particles': info['particles'], 'real_inter_residue_edges': info.get('inter_residue_edges', 0)})
            if len(info['seq']) >= 2:
                b.nontrivial(item, {'real': item, 'sequence': info['seq'], 'particles': info['particles']})
    return b.result()
