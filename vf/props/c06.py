"""C06 - subgraph matching is sound, complete and symmetry-reduced.

Events : every mapping yielded by ISMAGS.find_isomorphisms / subgraph_isomorphisms_iter / isomorphisms_iter /
         largest_common_subgraph with symmetry on and off; booleans of is_isomorphic / subgraph_is_isomorphic.
Oracle : own backtracking enumeration (cross-checked against networkx VF2, which vermouth.ismags does not use),
         pattern automorphism group by the same enumerator, classes f ~ f.a; exact maximum common induced subgraph
         by descending subset search.
"""
import itertools

import networkx as nx

from .. import harness, util
from ..oracles import match

PROPERTY = 'C06'
LEVEL = 'exploration'
RULE = ('Batches of graph pairs: random G(n,p) pairs, planted copies, trees, forests, disconnected patterns with '
        'repeated components, cycles, stars/spiders, ladders, prisms, cube, K3,3, balanced trees, the 18-node tree of the '
        'source comment, dumbbells, caterpillars; hosts = relabelled copy / copy plus random attachment / two copies / '
        'random graph; 0-3 node colour classes, 0-2 edge colour classes; node keys relabelled with sparse shuffled '
        'integers (node order drives symmetry breaking). quick: pattern <= 8, host <= 10, LCS <= 6/7; thorough: pattern '
        '<= 10, host <= 14, LCS <= 8/9. Non-trivial = |Aut(pattern)| >= 2 and >= 2 isomorphisms (or, for LCS, >= 2 '
        'maximum common subgraphs). distinct = distinct (pattern, host, colours) hashes. Also: histories - several pairs matched through one shared symmetry cache with recoloured repeats of the previous pattern; ONE matcher object asked 2-5 different questions in a row (isomorphisms with/without symmetry, boolean front ends, largest common subgraph with/without symmetry); coset-inside-orbit invariant on analyze_symmetry; pinned witness pairs of earlier findings.')
ASSUMPTIONS = ['termination is not claimed: a sub-case that exceeds its watchdog is inconclusive (capped at 20% of cases)',
               'sub-cases with more than 2e5 (isomorphisms x automorphisms) are skipped as inconclusive',
               'the own enumerator and networkx VF2 must agree on every case, otherwise the case is a harness error']
MIN_HITS = {'quick': 2500, 'thorough': 80000}
CASE_TIMEOUT = 1700
SHARD_TIMEOUT = {'quick': 900, 'thorough': 3400}


def fz(m):
    return frozenset(m.items())


def families():
    yield 'tree18', nx.Graph([(0, 3), (0, 4), (4, 5), (0, 8), (8, 9), (3, 12), (12, 13), (3, 16), (16, 17)])
    yield '2xP3', nx.disjoint_union(nx.path_graph(3), nx.path_graph(3))
    yield '3xK2', nx.disjoint_union_all([nx.path_graph(2)] * 3)
    yield '2xC3', nx.disjoint_union(nx.cycle_graph(3), nx.cycle_graph(3))
    yield 'P3+K1+K1', nx.disjoint_union_all([nx.path_graph(3), nx.path_graph(1), nx.path_graph(1)])
    yield '2xP2+K1', nx.disjoint_union_all([nx.path_graph(2), nx.path_graph(2), nx.path_graph(1)])
    yield 'spider222', nx.Graph([(0, 1), (1, 2), (0, 3), (3, 4), (0, 5), (5, 6)])
    yield 'spider2222', nx.Graph([(0, 1), (1, 2), (0, 3), (3, 4), (0, 5), (5, 6), (0, 7), (7, 8)])
    yield 'prism', nx.circular_ladder_graph(3)
    yield 'cube', nx.hypercube_graph(3)
    yield 'K33', nx.complete_bipartite_graph(3, 3)
    yield 'C5', nx.cycle_graph(5)
    yield 'C6', nx.cycle_graph(6)
    yield 'C7', nx.cycle_graph(7)
    yield 'C8', nx.cycle_graph(8)
    yield 'ladder4', nx.ladder_graph(4)
    yield 'bintree', nx.balanced_tree(2, 2)
    yield 'tritree', nx.balanced_tree(3, 2)
    yield 'dumbbell', nx.Graph([(0, 1), (1, 2), (2, 0), (2, 3), (3, 4), (4, 5), (5, 3)])
    yield 'caterpillar', nx.Graph([(0, 1), (1, 2), (2, 3), (0, 4), (0, 5), (3, 6), (3, 7), (1, 8), (2, 9)])
    yield 'star4', nx.star_graph(4)
    yield 'star6', nx.star_graph(6)
    yield 'P5', nx.path_graph(5)
    yield 'K4', nx.complete_graph(4)
    yield 'benzyl', nx.Graph([(0, 1), (1, 2), (2, 3), (3, 4), (4, 5), (5, 0), (0, 6), (6, 7), (6, 8)])


FAMILIES = None


def relabel(rnd, g, span):
    labels = rnd.sample(range(span), len(g))
    nodes = list(g.nodes)
    rnd.shuffle(nodes)
    h = nx.Graph()
    mapping = dict(zip(nodes, labels))
    order = list(g.nodes)
    rnd.shuffle(order)
    for n in order:
        h.add_node(mapping[n], **g.nodes[n])
    edges = list(g.edges(data=True))
    rnd.shuffle(edges)
    for u, v, d in edges:
        h.add_edge(mapping[u], mapping[v], **d)
    return h


def gen_pair(rnd, tier, lcs):
    global FAMILIES
    if FAMILIES is None:
        FAMILIES = [(n, nx.convert_node_labels_to_integers(g)) for n, g in families()]
    big = tier == 'thorough'
    pmax, hmax = (10, 14) if big else (8, 10)
    if lcs:
        pmax, hmax = (8, 9) if big else (6, 7)
    kind = rnd.choice(['gnp', 'gnp', 'tree', 'forest', 'family', 'family', 'family', 'simple', 'symmetrised', 'symmetrised', 'regular', 'regular'])
    if kind == 'gnp':
        n = rnd.randint(2, pmax - 1)
        SG = nx.gnp_random_graph(n, rnd.choice([.3, .5, .7]), seed=rnd.randrange(10 ** 6))
    elif kind == 'regular':
        # regular / vertex-transitive patterns: colour refinement tells nothing apart, the automorphism search has to couple nodes
        # explicitly over several levels, and its pruning is exercised in every numbering the relabelling below produces
        pick = rnd.choice(['cube', 'cube', 'K33', 'prism', 'octahedron', 'moebius8', 'petersen', 'reg3-8', 'reg3-10', 'reg3-6', 'reg4-8'])
        SG = {'cube': lambda: nx.hypercube_graph(3), 'K33': lambda: nx.complete_bipartite_graph(3, 3),
              'prism': lambda: nx.circular_ladder_graph(3), 'octahedron': nx.octahedral_graph,
              'moebius8': lambda: nx.circulant_graph(8, [1, 4]), 'petersen': nx.petersen_graph,
              'reg3-8': lambda: nx.random_regular_graph(3, 8, seed=rnd.randrange(10 ** 6)),
              'reg3-10': lambda: nx.random_regular_graph(3, 10, seed=rnd.randrange(10 ** 6)),
              'reg3-6': lambda: nx.random_regular_graph(3, 6, seed=rnd.randrange(10 ** 6)),
              'reg4-8': lambda: nx.random_regular_graph(4, 8, seed=rnd.randrange(10 ** 6))}[pick]()
        if len(SG) > pmax:
            SG = nx.hypercube_graph(3) if pmax >= 8 else nx.octahedral_graph()
        kind = 'regular:' + pick
    elif kind == 'symmetrised':
        # a random graph united with its image under a random involution: dense, irregular, with a non-trivial automorphism
        # group (the class of graphs on which the symmetry analysis once accepted permutations that are no automorphisms)
        n = rnd.randint(5, pmax)
        SG = nx.gnp_random_graph(n, rnd.choice([.25, .4, .5, .6]), seed=rnd.randrange(10 ** 6))
        inv = list(range(n))
        rnd.shuffle(inv)
        m = {}
        for i in range(0, n - 1, 2):
            m[inv[i]], m[inv[i + 1]] = inv[i + 1], inv[i]
        SG.add_edges_from([(m.get(u, u), m.get(v, v)) for u, v in list(SG.edges)])
    elif kind == 'tree':
        n = rnd.randint(2, pmax)
        SG = nx.random_labeled_tree(n, seed=rnd.randrange(10 ** 6)) if n > 1 else nx.path_graph(1)
    elif kind == 'forest':
        comp = rnd.choice([nx.path_graph(2), nx.path_graph(3), nx.cycle_graph(3), nx.star_graph(2)])
        reps = rnd.randint(2, 3)
        SG = nx.disjoint_union_all([comp] * reps)
        if rnd.random() < 0.4:
            SG = nx.disjoint_union(SG, nx.path_graph(rnd.randint(1, 2)))
    elif kind == 'family':
        name, SG = rnd.choice([f for f in FAMILIES if len(f[1]) <= pmax])
        SG = SG.copy()
        kind = 'family:' + name
    else:
        n = rnd.randint(2, pmax - 1)
        SG = rnd.choice([nx.cycle_graph, nx.path_graph, nx.star_graph, nx.complete_graph])(max(2, n - 1))
        if len(SG) > 6 and nx.density(SG) == 1:
            SG = nx.complete_graph(5)
    SG = nx.convert_node_labels_to_integers(SG)
    if len(SG) > pmax:
        SG = SG.subgraph(list(SG.nodes)[:pmax]).copy()
    hk = rnd.choice(['copy', 'copy+', 'two', 'random', 'random', 'planted'])
    if hk == 'copy':
        G = SG.copy()
    elif hk == 'copy+':
        extra = nx.gnp_random_graph(rnd.randint(1, 3), .5, seed=rnd.randrange(10 ** 6))
        G = nx.disjoint_union(SG, extra)
        for _ in range(rnd.randint(1, 2)):
            G.add_edge(rnd.randrange(len(SG)), len(SG) + rnd.randrange(len(extra)))
    elif hk == 'two' and 2 * len(SG) <= hmax:
        G = nx.disjoint_union(SG, SG)
        if rnd.random() < 0.5:
            G.add_edge(rnd.randrange(len(SG)), len(SG) + rnd.randrange(len(SG)))
    else:
        n = rnd.randint(max(2, len(SG) - (2 if lcs else 0)), hmax)
        G = nx.gnp_random_graph(n, rnd.choice([.3, .5, .7]), seed=rnd.randrange(10 ** 6))
        if hk == 'planted' and n >= len(SG):
            perm = rnd.sample(range(n), len(SG))
            G.add_edges_from((perm[a], perm[b_]) for a, b_ in SG.edges)
    if len(G) > hmax:
        G = G.subgraph(list(G.nodes)[:hmax]).copy()
    nc = rnd.choice([0, 0, 1, 2, 3])
    ec = rnd.choice([0, 0, 0, 1, 2])
    if nc:
        for g in (SG, G):
            for n in g:
                g.nodes[n]['c'] = rnd.randrange(nc) if rnd.random() < 0.9 else 0
    if ec:
        for g in (SG, G):
            for u, v in g.edges:
                g.edges[u, v]['e'] = rnd.randrange(ec) if rnd.random() < 0.9 else 0
    SG = relabel(rnd, SG, 60)
    G = relabel(rnd, G, 90)
    return SG, G, bool(nc), bool(ec), kind, hk


def recolour(rnd, SG):
    """Same nodes and edges in the same order; the colour values are dealt out again (same multisets)."""
    H = nx.Graph()
    ncol = [SG.nodes[n].get('c') for n in SG.nodes]
    ecol = [d.get('e') for _, _, d in SG.edges(data=True)]
    rnd.shuffle(ncol)
    rnd.shuffle(ecol)
    for n, c in zip(SG.nodes, ncol):
        H.add_node(n, **({'c': c} if c is not None else {}))
    for (u, v, _), e in zip(SG.edges(data=True), ecol):
        H.add_edge(u, v, **({'e': e} if e is not None else {}))
    return H


def host_from_pattern(rnd, SG):
    G = nx.convert_node_labels_to_integers(SG)
    if rnd.random() < 0.5:
        n = len(G)
        G.add_node(n, **({'c': 0} if any('c' in d for _, d in SG.nodes(data=True)) else {}))
        G.add_edge(n, rnd.randrange(n), **({'e': 0} if any('e' in d for _, _, d in SG.edges(data=True)) else {}))
    return G


def describe(SG, G, nm, em):
    return {'pattern_nodes': {str(n): SG.nodes[n].get('c') for n in SG.nodes},
            'pattern_edges': [[u, v, d.get('e')] for u, v, d in SG.edges(data=True)],
            'host_nodes': {str(n): G.nodes[n].get('c') for n in G.nodes},
            'host_edges': [[u, v, d.get('e')] for u, v, d in G.edges(data=True)],
            'node_colours': nm, 'edge_colours': em}


def sound(G, SG, m, nm, em):
    """m: {graph node: pattern node}"""
    if len(set(m.values())) != len(m):
        return False
    for g, s in m.items():
        if g not in G or s not in SG:
            return False
        if nm and G.nodes[g].get('c') != SG.nodes[s].get('c'):
            return False
    for (g1, s1), (g2, s2) in itertools.combinations(m.items(), 2):
        if G.has_edge(g1, g2) != SG.has_edge(s1, s2):
            return False
        if em and G.has_edge(g1, g2) and G.edges[g1, g2].get('e') != SG.edges[s1, s2].get('e'):
            return False
    return True


def oracle_isos(G, SG, nm, em):
    node_ok = (lambda g, p: G.nodes[g].get('c') == SG.nodes[p].get('c')) if nm else (lambda g, p: True)
    edge_ok = (lambda g1, g2, p1, p2: G.edges[g1, g2].get('e') == SG.edges[p1, p2].get('e')) if em else None
    own = set()
    for m in match.induced_isos(G, SG, node_ok, edge_ok):
        own.add(frozenset((g, p) for p, g in m.items()))
    return own


def oracle_auts(SG, nm, em):
    node_ok = (lambda g, p: SG.nodes[g].get('c') == SG.nodes[p].get('c')) if nm else (lambda g, p: True)
    edge_ok = (lambda g1, g2, p1, p2: SG.edges[g1, g2].get('e') == SG.edges[p1, p2].get('e')) if em else None
    return [dict(m) for m in match.induced_isos(SG, SG, node_ok, edge_ok)]   # {p: image}


def vf2_isos(G, SG, nm, em):
    node_match = (lambda a, b: a.get('c') == b.get('c')) if nm else None
    edge_match = (lambda a, b: a.get('e') == b.get('e')) if em else None
    gm = nx.isomorphism.GraphMatcher(G, SG, node_match=node_match, edge_match=edge_match)
    return {fz(m) for m in gm.subgraph_isomorphisms_iter()}


def matchers(nm, em):
    node_match = (lambda a, b: a.get('c') == b.get('c')) if nm else None
    edge_match = (lambda a, b: a.get('e') == b.get('e')) if em else None
    return node_match, edge_match


class OracleDisagreement(Exception):
    pass


def check_iso(G, SG, nm, em, rnd, cache=None, cls=None):
    """-> (problem or None, info)"""
    from vermouth.ismags import ISMAGS
    ISMAGS = cls or ISMAGS
    node_match, edge_match = matchers(nm, em)
    own = oracle_isos(G, SG, nm, em)
    if len(SG) and own != vf2_isos(G, SG, nm, em):
        raise OracleDisagreement('own enumerator and VF2 disagree')
    auts = oracle_auts(SG, nm, em)
    if len(own) * len(auts) > 200000:
        return 'skip', {}
    info = {'isos': len(own), 'auts': len(auts)}
    api = rnd.choice(['find_isomorphisms', 'subgraph_isomorphisms_iter'])
    full = list(getattr(ISMAGS(G, SG, node_match=node_match, edge_match=edge_match, cache=cache), api)(symmetry=False))
    for m in full:
        if not sound(G, SG, m, nm, em):
            return ('nosym/unsound', {'mapping': sorted(m.items())}), info
    sfull = {fz(m) for m in full}
    if len(sfull) != len(full):
        return ('nosym/duplicate', {'yielded': len(full), 'distinct': len(sfull)}), info
    if sfull != own and len(SG):
        return ('nosym/incomplete', {'missing': [sorted(x) for x in list(own - sfull)[:3]], 'yielded': len(full),
                                      'expected': len(own)}), info
    # invariant on the symmetry analysis itself: a coset can never leave the orbit of its node under Aut(pattern)
    if len(SG):
        I0 = ISMAGS(G, SG, node_match=node_match, edge_match=edge_match, cache=cache)
        _, cosets = I0.analyze_symmetry(SG, I0._sgn_partitions, I0._sge_colors)
        for k, members in cosets.items():
            orbit = {a[k] for a in auts}
            if not set(members) <= orbit:
                return ('symmetry/coset-exceeds-orbit', {'node': k, 'coset': sorted(members), 'orbit': sorted(orbit),
                                                         'automorphisms': len(auts)}), info
    sym = list(getattr(ISMAGS(G, SG, node_match=node_match, edge_match=edge_match, cache=cache), api)(symmetry=True))
    for m in sym:
        if not sound(G, SG, m, nm, em):
            return ('sym/unsound', {'mapping': sorted(m.items())}), info

    def cls(m):
        return frozenset(frozenset((g, a[s]) for g, s in m) for a in auts)
    classes = {cls(m) for m in own}
    info['classes'] = len(classes)
    symcls = [cls(fz(m)) for m in sym]
    if len(set(symcls)) != len(symcls):
        return ('sym/two-members-of-one-class', {'yielded': len(sym), 'classes_hit': len(set(symcls)),
                                                 'classes': len(classes)}), info
    if len(SG) and set(symcls) != classes:
        missing = [sorted(next(iter(c))) for c in list(classes - set(symcls))[:3]]
        return ('sym/class-lost', {'yielded': len(sym), 'classes': len(classes), 'example_missing': missing}), info
    # boolean front ends
    I = ISMAGS(G, SG, node_match=node_match, edge_match=edge_match, cache=cache)
    if bool(I.subgraph_is_isomorphic()) != bool(own):
        return ('bool/subgraph_is_isomorphic', {'expected': bool(own)}), info
    if bool(I.is_isomorphic()) != (bool(own) and len(G) == len(SG)):
        return ('bool/is_isomorphic', {'expected': bool(own) and len(G) == len(SG)}), info
    if len(G) == len(SG):
        it = list(ISMAGS(G, SG, node_match=node_match, edge_match=edge_match, cache=cache).isomorphisms_iter(symmetry=False))
        if {fz(m) for m in it} != own or len(it) != len(own):
            return ('nosym/isomorphisms_iter', {'yielded': len(it), 'expected': len(own)}), info
    return None, info


def check_lcs(G, SG, nm, em, cache=None, cls=None):
    from vermouth.ismags import ISMAGS
    ISMAGS = cls or ISMAGS
    node_match, edge_match = matchers(nm, em)
    node_ok = (lambda g, p: G.nodes[g].get('c') == SG.nodes[p].get('c')) if nm else (lambda g, p: True)
    edge_ok = (lambda g1, g2, p1, p2: G.edges[g1, g2].get('e') == SG.edges[p1, p2].get('e')) if em else None
    k = 0
    allmax = set()
    for size in range(min(len(SG), len(G)), 0, -1):
        found = set()
        for sub in itertools.combinations(list(SG.nodes), size):
            H = SG.subgraph(sub)
            for m in match.induced_isos(G, H, node_ok, edge_ok):
                found.add(frozenset((g, p) for p, g in m.items()))
        if found:
            k, allmax = size, found
            break
    auts = oracle_auts(SG, nm, em)
    info = {'max_size': k, 'max_count': len(allmax), 'auts': len(auts)}
    for symflag in (False, True):
        out = list(ISMAGS(G, SG, node_match=node_match, edge_match=edge_match, cache=cache).largest_common_subgraph(symmetry=symflag))
        tag = 'lcs-sym/' if symflag else 'lcs-nosym/'
        for m in out:
            if not sound(G, SG, m, nm, em):
                return (tag + 'not-a-common-induced-subgraph', {'mapping': sorted(m.items())}), info
            if len(m) != k:
                return (tag + 'not-maximum', {'size': len(m), 'maximum': k}), info
        if bool(out) != (k > 0):
            return (tag + 'nothing-returned', {'maximum': k}), info
        ret = {fz(m) for m in out}
        if not symflag:
            if ret != allmax:
                return (tag + 'maximum-missed', {'returned': len(ret), 'expected': len(allmax),
                                                 'missing': [sorted(x) for x in list(allmax - ret)[:3]]}), info
        else:
            for m in allmax:
                if not any(frozenset((g, a[s]) for g, s in m) in ret for a in auts):
                    return (tag + 'maximum-missed', {'missing': sorted(m), 'returned': len(ret)}), info
    return None, info


def lcs_oracle(G, SG, nm, em):
    node_ok = (lambda g, p: G.nodes[g].get('c') == SG.nodes[p].get('c')) if nm else (lambda g, p: True)
    edge_ok = (lambda g1, g2, p1, p2: G.edges[g1, g2].get('e') == SG.edges[p1, p2].get('e')) if em else None
    for size in range(min(len(SG), len(G)), 0, -1):
        found = set()
        for sub in itertools.combinations(list(SG.nodes), size):
            H = SG.subgraph(sub)
            for m in match.induced_isos(G, H, node_ok, edge_ok):
                found.add(frozenset((g, p) for p, g in m.items()))
        if found:
            return size, found
    return 0, set()


def check_history(G, SG, nm, em, rnd, cache=None, cls=None):
    """One matcher object asked several questions in a row: every answer must be the answer a fresh object gives (= the
    oracle's).  State kept on the object between calls (cached candidates, partitions, symmetry) must not leak."""
    from vermouth.ismags import ISMAGS
    ISMAGS = cls or ISMAGS
    node_match, edge_match = matchers(nm, em)
    own = oracle_isos(G, SG, nm, em)
    auts = oracle_auts(SG, nm, em)
    if len(own) * len(auts) > 50000:
        return 'skip', {}
    k, allmax = lcs_oracle(G, SG, nm, em)
    info = {'isos': len(own), 'auts': len(auts), 'max_size': k, 'max_count': len(allmax)}

    def cls(m):
        return frozenset(frozenset((g, a[s]) for g, s in m) for a in auts)
    classes = {cls(m) for m in own}
    I = ISMAGS(G, SG, node_match=node_match, edge_match=edge_match, cache=cache)
    calls = [rnd.choice(['iso', 'iso-sym', 'sub-bool', 'iso-bool', 'lcs', 'lcs-sym']) for _ in range(rnd.randint(2, 5))]
    if rnd.random() < 0.5:
        calls = [rnd.choice(['iso', 'iso-sym', 'sub-bool', 'iso-bool']), rnd.choice(['lcs', 'lcs-sym'])] + calls[:2]
    info['calls'] = calls
    for i, c in enumerate(calls):
        tag = 'history/%s-after-%s/' % (c, calls[i - 1] if i else 'nothing')
        if c in ('iso', 'iso-sym'):
            out = list(I.find_isomorphisms(symmetry=(c == 'iso-sym')))
            if any(not sound(G, SG, m, nm, em) for m in out):
                return (tag + 'unsound', {'calls': calls[:i + 1]}), info
            got = {fz(m) for m in out}
            if len(got) != len(out):
                return (tag + 'duplicate', {'calls': calls[:i + 1]}), info
            if c == 'iso' and len(SG) and got != own:
                return (tag + 'incomplete', {'calls': calls[:i + 1], 'yielded': len(got), 'expected': len(own)}), info
            if c == 'iso-sym' and len(SG):
                sc = [cls(m) for m in got]
                if len(set(sc)) != len(sc) or set(sc) != classes:
                    return (tag + 'classes', {'calls': calls[:i + 1], 'yielded': len(sc), 'classes': len(classes)}), info
        elif c == 'sub-bool':
            if bool(I.subgraph_is_isomorphic()) != bool(own):
                return (tag + 'wrong', {'calls': calls[:i + 1], 'expected': bool(own)}), info
        elif c == 'iso-bool':
            if bool(I.is_isomorphic()) != (bool(own) and len(G) == len(SG)):
                return (tag + 'wrong', {'calls': calls[:i + 1]}), info
        else:
            out = list(I.largest_common_subgraph(symmetry=(c == 'lcs-sym')))
            for m in out:
                if not sound(G, SG, m, nm, em):
                    return (tag + 'not-a-common-induced-subgraph', {'calls': calls[:i + 1], 'mapping': sorted(m.items())}), info
                if len(m) != k:
                    return (tag + 'not-maximum', {'calls': calls[:i + 1], 'size': len(m), 'maximum': k}), info
            if bool(out) != (k > 0):
                return (tag + 'nothing-returned', {'calls': calls[:i + 1], 'maximum': k}), info
            ret = {fz(m) for m in out}
            if c == 'lcs' and ret != allmax:
                return (tag + 'maximum-missed', {'calls': calls[:i + 1], 'returned': len(ret), 'expected': len(allmax)}), info
            if c == 'lcs-sym':
                for m in allmax:
                    if not any(frozenset((g, a[s]) for g, s in m) in ret for a in auts):
                        return (tag + 'maximum-missed', {'calls': calls[:i + 1], 'missing': sorted(m), 'returned': len(ret)}), info
    return None, info


# witness pairs of earlier findings, run on every invocation (pattern nodes, pattern edges, host nodes, host edges;
# edge colour as third item, all node colours equal)
PINNED = [
    ([45, 12, 57, 37, 27, 48], [[45, 12, 0], [45, 48, 0], [45, 57, 1], [12, 27, 1], [12, 37, 0], [57, 48, 0], [57, 27, 0], [37, 48, 1], [37, 27, 0]],
     [25, 44, 4, 45, 6, 17, 54, 42, 83], [[25, 6, 1], [25, 44, 1], [25, 54, 0], [44, 45, 1], [44, 6, 1], [45, 54, 0], [45, 83, 0], [45, 42, 0], [6, 83, 0], [17, 42, 1], [54, 83, 0]]),
    ([50, 38, 15, 37, 40, 21], [[50, 21, 0], [50, 15, 0], [50, 38, 1], [38, 40, 0], [38, 21, 0], [15, 40, 1], [15, 37, 0], [37, 40, 0], [37, 21, 1]],
     [18, 57, 60, 10, 33, 74, 34], [[18, 33, 1], [18, 74, 0], [18, 10, 0], [57, 60, 1], [60, 74, 1], [60, 33, 1], [60, 34, 1], [10, 74, 0], [10, 34, 1], [33, 34, 0]]),
    ([10, 38, 58, 24, 32, 17], [[10, 24, 0], [10, 17, 1], [38, 24, 1], [38, 58, 0], [58, 32, 1], [32, 17, 0]],
     [53, 21, 83, 48, 65, 79, 40, 26], [[53, 79, 1], [53, 26, 1], [21, 40, 1], [21, 65, 0], [83, 26, 1], [83, 65, 1], [48, 40, 1], [48, 26, 1]]),
    # false symmetry of the pinned algorithm (known finding): symmetric search returns nothing although the host contains the pattern
    ([58, 16, 55, 17, 2, 53, 56, 52, 42], [[58, 52, 0], [58, 17, 0], [58, 55, 0], [58, 56, 0], [58, 53, 0], [16, 17, 0], [16, 53, 0], [16, 42, 0], [16, 56, 0], [16, 55, 0], [55, 17, 0], [55, 52, 0], [55, 42, 0], [55, 2, 0], [17, 53, 0], [17, 2, 0], [17, 52, 0], [17, 42, 0], [17, 56, 0], [2, 52, 0], [2, 56, 0], [2, 42, 0], [2, 53, 0], [53, 42, 0], [56, 52, 0], [52, 42, 0]],
     [88, 67, 83, 59, 94, 3, 32, 79, 45, 200], [[88, 94, 0], [88, 45, 0], [88, 3, 0], [88, 67, 0], [88, 59, 0], [88, 83, 0], [88, 200, 0], [67, 79, 0], [67, 32, 0], [67, 45, 0], [67, 3, 0], [83, 79, 0], [83, 32, 0], [83, 45, 0], [83, 59, 0], [59, 32, 0], [59, 94, 0], [59, 45, 0], [59, 3, 0], [94, 79, 0], [94, 32, 0], [94, 45, 0], [94, 3, 0], [3, 79, 0], [3, 45, 0], [32, 45, 0], [79, 45, 0]]),
    ([8, 10, 36, 53, 52, 21, 16, 23], [[8, 10, 0], [8, 21, 0], [8, 23, 0], [8, 36, 0], [8, 52, 0], [10, 21, 0], [10, 23, 0], [10, 36, 0], [10, 53, 0], [36, 16, 0], [36, 23, 0], [36, 53, 0], [53, 16, 0], [53, 52, 0], [52, 21, 0], [52, 23, 0], [21, 16, 0], [16, 23, 0]],
     [73, 52, 93, 69, 27, 31, 13, 1, 200], [[73, 69, 0], [73, 13, 0], [73, 27, 0], [73, 52, 0], [73, 31, 0], [73, 200, 0], [52, 69, 0], [52, 13, 0], [52, 1, 0], [52, 27, 0], [93, 69, 0], [93, 13, 0], [93, 1, 0], [93, 27, 0], [69, 13, 0], [69, 1, 0], [27, 31, 0], [31, 13, 0], [31, 1, 0]]),
]


def pinned_pairs():
    for pn, pe, hn, he in PINNED:
        SG, G = nx.Graph(), nx.Graph()
        for n in pn:
            SG.add_node(n, c=0)
        for u, v, e in pe:
            SG.add_edge(u, v, e=e)
        for n in hn:
            G.add_node(n, c=0)
        for u, v, e in he:
            G.add_edge(u, v, e=e)
        for lcs in (False, True):
            yield SG, G, True, True, 'pinned', 'pinned', lcs
        yield SG, SG.copy(), False, True, 'pinned', 'pinned-self', False


def cases(tier, seed):
    nb, per = (32, 110) if tier == 'quick' else (160, 700)
    return [{'seed': seed, 'batch': b, 'n': per, 'tier': tier} for b in range(nb)]


def run_case(params):
    rnd = harness.rng('C06', params['seed'], params['batch'])
    b = harness.Batch()
    limit = 8 if params['tier'] == 'quick' else 20
    pinned = list(pinned_pairs()) if params['batch'] == 0 else []
    shared_cache = {}          # one symmetry cache shared by a history of matches (the public cache= argument)
    prev = None
    last_any = None
    pending_swap = None
    for j in range(params['n'] + len(pinned)):
        use_cache = False
        if j < len(pinned):
            SG, G, nm, em, kind, hk, lcs = pinned[j]
        elif pending_swap is not None:
            # ... and the same pattern with the keys -1 and -2 exchanged: another labelled graph whose tuples of nodes and of edges
            # have the same hash (hash(-1) == hash(-2) in CPython), matched with the same cache
            SG0, nm, em, kind0, lcs = pending_swap
            pending_swap = None
            SG = nx.relabel_nodes(SG0, {-1: -2, -2: -1})
            G = relabel(rnd, host_from_pattern(rnd, SG), 90)
            kind, hk = 'negkeys-swapped:' + kind0.split(':')[-1], 'copy'
            use_cache = True
        elif last_any is not None and rnd.random() < 0.08:
            # a pattern two of whose node keys are -1 and -2, matched with the shared cache ...
            SG0, nm, em, kind0, lcs = last_any
            u, v = rnd.sample(sorted(SG0.nodes), 2)
            SG = nx.relabel_nodes(SG0, {u: -1, v: -2})
            G = relabel(rnd, host_from_pattern(rnd, SG), 90)
            kind, hk = 'negkeys:' + kind0.split(':')[-1], 'copy'
            use_cache = True
            pending_swap = (SG, nm, em, kind0, lcs)
        elif prev is not None and rnd.random() < 0.3:
            # same pattern (same node and edge order), colours placed differently, matched with the shared cache
            SG0, nm, em, kind0, lcs = prev
            SG = recolour(rnd, SG0)
            G = relabel(rnd, host_from_pattern(rnd, SG), 90)
            kind, hk = 'recoloured:' + kind0.split(':')[-1], 'copy-of-recoloured'
            use_cache = True
        else:
            lcs = rnd.random() < 0.3
            SG, G, nm, em, kind, hk = gen_pair(rnd, params['tier'], lcs)
            use_cache = rnd.random() < 0.5
        if (nm or em) and len(SG) <= 8:
            prev = (SG, nm, em, kind, lcs)
        if 2 <= len(SG) <= 8 and not kind.startswith('negkeys') and -1 not in SG and -2 not in SG:
            last_any = (SG, nm, em, kind, lcs)
        cache = shared_cache if use_cache else None
        # a quarter of the generated LCS-sized pairs are put to ONE matcher object as a sequence of different questions
        hist = j >= len(pinned) and lcs and rnd.random() < 0.5
        b.total += 1
        desc = None
        try:
            with harness.sub_alarm(limit):
                if hist:
                    p, info = check_history(G, SG, nm, em, rnd, cache)
                elif lcs:
                    p, info = check_lcs(G, SG, nm, em, cache)
                else:
                    p, info = check_iso(G, SG, nm, em, rnd, cache)
        except harness.CaseTimeout:
            b.inconclusive('watchdog')
            b.feat('watchdog_' + kind.split(':')[0])
            continue
        except OracleDisagreement:
            raise
        except (RecursionError, KeyError, IndexError, ValueError, TypeError, AttributeError, StopIteration, RuntimeError) as e:
            import traceback
            tb = traceback.format_exc()
            if 'vermouth/ismags.py' in tb.split('\n')[-3] or 'ismags.py' in tb:
                p, info = ('exception/%s' % type(e).__name__, {'error': repr(e), 'trace': tb[-600:]}), {}
            else:
                raise
        if p == 'skip':
            b.inconclusive('too-many-isomorphisms')
            continue
        b.hits += 1
        b.feat({'with_shared_symmetry_cache': int(cache is not None), 'recoloured_repeat_of_previous_pattern': int(kind.startswith('recoloured')),
                'lcs_cases': int(lcs and not hist), 'iso_cases': int(not lcs), 'one_object_call_histories': int(hist), 'node_coloured': int(nm), 'edge_coloured': int(em),
                'pattern_disconnected': int(len(SG) > 0 and not nx.is_connected(SG)),
                'pattern_kind_' + kind.split(':')[0]: 1})
        if p and ('sym' in p[0]) and not p[0].startswith(('nosym/', 'lcs-nosym/')):
            # Is this the false-symmetry defect of the pinned algorithm (repaired in 6edc4df; reported as a violation if it returns)?  Only if (i) the violation reproduces with fresh
            # objects and no shared cache, and (ii) the frozen copy of the pinned algorithm gives exactly the same wrong
            # answer on this very input.  Anything else is reported as a violation.
            try:
                with harness.sub_alarm(3 * limit):
                    from ..oracles import ismags_pinned
                    import random as _random
                    if hist:
                        fresh, _ = check_iso(G, SG, nm, em, _random.Random(1), None) if 'iso' in p[0] else check_lcs(G, SG, nm, em, None)
                        pinned_, _ = (check_iso(G, SG, nm, em, _random.Random(1), None, ismags_pinned.ISMAGS) if 'iso' in p[0]
                                      else check_lcs(G, SG, nm, em, None, ismags_pinned.ISMAGS))
                    elif lcs:
                        fresh, _ = check_lcs(G, SG, nm, em, None)
                        pinned_, _ = check_lcs(G, SG, nm, em, None, ismags_pinned.ISMAGS)
                    else:
                        fresh, _ = check_iso(G, SG, nm, em, _random.Random(1), None)
                        pinned_, _ = check_iso(G, SG, nm, em, _random.Random(1), None, ismags_pinned.ISMAGS)
                if fresh and pinned_ and fresh != 'skip' and pinned_ != 'skip' and fresh[0] == pinned_[0] and fresh[1] == pinned_[1]:
                    b.feat('known_false_symmetry_of_the_pinned_algorithm')
                    p = ('pinned-algorithm/false-symmetry', dict(p[1], observed_as=p[0], fresh_objects=fresh[0]))
            except harness.CaseTimeout:
                pass
        if p:
            desc = describe(SG, G, nm, em)
            b.violation(p[0], 'ISMAGS result differs from exhaustive enumeration (%s)' % p[0],
                        {'subcase': j, 'detail': p[1], 'info': info, 'graphs': desc, 'pattern_kind': kind, 'host_kind': hk})
            continue
        nt = info.get('auts', 1) >= 2 and (info.get('isos', 0) >= 2 or info.get('max_count', 0) >= 2)
        if nt:
            b.feat('symmetric_pattern_cases')
            b.nontrivial([sorted(SG.edges), sorted(G.edges), sorted(SG.nodes(data='c')), nm, em, lcs],
                         dict(describe(SG, G, nm, em), kind=kind, host=hk, lcs=lcs, info=info))
    return b.result()
