"""C10 - guessed bonds obey the stated criteria and never split or lose residues.

Events : system.molecules after MakeBonds.run_system; every input atom carries a unique tag attribute so atoms are
         traced through the relabelling.
Oracle : O(N^2) reference over all atom pairs (independent Bondi table), conservation / partition / residue integrity
         checks, name-based bonds = block bonds among the atoms present.
"""
import math
import os

import numpy as np

from .. import harness, util
from ..oracles import pdbread

PROPERTY = 'C10'
LEVEL = 'exploration'
RULE = ('(a) fragments of 1-6 consecutive residues cut from the repository\'s test PDB files (real geometry, nm), jittered, '
        'optionally with an unknown residue name, a duplicated atom name (distance fallback), atoms dropped, an extra '
        'ligand/ion of an element without a radius placed anywhere in the atom order, split into 1-3 input molecules '
        'with coinciding chain/resid/resname placed at bonding distance, atom order shuffled, node keys gapped; '
        '(b) random point clouds over every element of the table plus unknown ones with pairs planted at '
        'threshold x (1 +- 1e-6, 1 +- 1e-3). fudge 0.5-2.0, all four name/distance modes. Non-trivial = >= 2 residues '
        'and >= 1 pair within 1e-3 of its threshold or an unknown-element atom ahead of other atoms. distinct = distinct '
        'case hashes. Also: residue numbers 0/negative, empty chain identifiers; one MakeBonds object per argument set shared by all systems of a shard.')
ASSUMPTIONS = ['pairs within 1e-9 (relative) of their threshold are undecided',
               'radii: Bondi 1964 (H: Rowland & Taylor 1996, D as H); element symbols are case sensitive as in the table',
               'residue identity = (input molecule, chain, resid, resname, insertion code)']
MIN_HITS = {'quick': 1500, 'thorough': 60000}
CASE_TIMEOUT = 900

BONDI = {'H': 0.120, 'D': 0.120, 'He': 0.140, 'C': 0.170, 'N': 0.155, 'O': 0.152, 'F': 0.147, 'Ne': 0.154, 'Si': 0.210,
         'P': 0.180, 'S': 0.180, 'Cl': 0.175, 'Ar': 0.188, 'As': 0.185, 'Se': 0.190, 'Br': 0.185, 'Kr': 0.202, 'Te': 0.206,
         'I': 0.198, 'Xe': 0.216}
UNKNOWN = ['Zn', 'Na', 'Fe', 'X', 'Mg']
PDBS = ['integration_tests/tier-1/1UBQ/aa.pdb', 'integration_tests/tier-1/bpti/aa.pdb', 'integration_tests/tier-1/villin/aa.pdb',
        'integration_tests/tier-1/lysozyme/aa.pdb', 'integration_tests/tier-1/hst5/aa.pdb']
_PDB = {}
_FF = {}


def pdb_residues(name):
    if name not in _PDB:
        with open(util.test_data_path(name)) as f:
            parsed = pdbread.read_pdb_text(f.read())
        res = []
        cur = None
        for a in parsed['atoms']:
            if a['altloc'] not in ('', 'A'):
                continue
            ident = (a['chain'], a['resid'], a['resname'], a['icode'])
            if cur is None or cur[0] != ident:
                cur = (ident, [])
                res.append(cur)
            el = a['element'].capitalize() if a['element'] else a['name'][0]
            cur[1].append({'atomname': a['name'], 'element': el, 'resname': a['resname'], 'pos': [a['x'] / 10, a['y'] / 10, a['z'] / 10]})
        _PDB[name] = res
    return _PDB[name]


def ff():
    if 'ff' not in _FF:
        from ..gen import atomistic
        _FF['ff'] = atomistic.native_ff('charmm')
    return _FF['ff']


def gen_fragment(rnd):
    res = pdb_residues(rnd.choice(PDBS))
    n = rnd.randint(1, 6)
    start = rnd.randrange(0, len(res) - n)
    frag = res[start:start + n]
    jitter = rnd.choice([0.0, 0.0, 0.002, 0.01])
    atoms = []
    nmol = rnd.choice([1, 1, 2, 3])
    cuts = sorted(rnd.sample(range(1, n), min(nmol - 1, n - 1))) if n > 1 else []
    same_identity = rnd.random() < 0.3
    mol_idx = 0
    resid = rnd.choice([1, 5, 77])
    tag = 0
    unknown_res = rnd.randrange(n) if rnd.random() < 0.25 else None
    dup_res = rnd.randrange(n) if rnd.random() < 0.15 else None
    for ri, (ident, alist) in enumerate(frag):
        if ri in cuts:
            mol_idx += 1
            if same_identity:
                resid -= 1      # the first residue of the new input molecule repeats the previous identity
        resid += 1
        rn = alist[0]['resname']
        if ri == unknown_res:
            rn = 'UNK'
        for ai, a in enumerate(alist):
            if rnd.random() < 0.04 and len(alist) > 3:
                continue  # dropped atom
            nm = a['atomname']
            if ri == dup_res and ai == 1:
                nm = alist[0]['atomname']
            atoms.append({'mol': mol_idx, 'tag': tag, 'atomname': nm, 'element': a['element'], 'resname': rn if not (same_identity and ri in cuts) else rn,
                          'resid': resid, 'chain': 'A', 'pos': [x + rnd.gauss(0, jitter) if jitter else x for x in a['pos']]})
            tag += 1
    if same_identity and cuts:
        # make residue names coincide too, for the residues on both sides of the first cut
        ri = cuts[0]
        rid_prev = None
    if rnd.random() < 0.5 and atoms:
        # an atom without radius (ion / ligand atom) inserted anywhere in the order
        host = rnd.choice(atoms)
        ion = {'mol': host['mol'], 'tag': tag, 'atomname': rnd.choice(['ZN', 'NA', 'FE']), 'element': rnd.choice(UNKNOWN),
               'resname': rnd.choice(['ZN', 'ION']), 'resid': 900, 'chain': host['chain'],
               'pos': [x + rnd.uniform(0.05, 0.2) for x in host['pos']]}
        atoms.insert(rnd.randrange(len(atoms) + 1), ion)
        tag += 1
    return atoms


def gen_cloud(rnd, fudge):
    n = rnd.randint(2, 40)
    elements = sorted(BONDI) + UNKNOWN
    atoms = []
    box = rnd.choice([0.5, 0.8, 1.2])
    nres = rnd.randint(1, max(1, n // 4))
    resid0 = rnd.choice([1, 1, 1, 0, -1])        # residue number 0 and negative numbers are legal
    chains = rnd.choice(['AB', 'AB', ['A', ''], ['', '']])
    for i in range(n):
        el = rnd.choice(elements) if rnd.random() < 0.6 else rnd.choice(['C', 'H', 'O', 'N', 'S'])
        atoms.append({'mol': 0 if rnd.random() < 0.7 else 1, 'tag': i, 'atomname': '%s%d' % (el, i), 'element': el, 'resname': 'LIG',
                      'resid': rnd.randrange(nres) + resid0, 'chain': rnd.choice(chains),
                      'pos': [rnd.uniform(0, box), rnd.uniform(0, box), rnd.uniform(0, box)]})
    for _ in range(rnd.randint(1, 6)):
        a, c = rnd.sample(atoms, 2)
        if a['element'] in BONDI and c['element'] in BONDI:
            thr = fudge * 0.5 * (BONDI[a['element']] + BONDI[c['element']])
            v = np.array([rnd.gauss(0, 1) for _ in range(3)])
            v /= np.linalg.norm(v)
            c['pos'] = list(np.array(a['pos']) + v * thr * (1 + rnd.choice([-1e-6, 1e-6, -1e-3, 1e-3])))
    if n >= 2 and rnd.random() < 0.3:
        # atoms on bit-identical coordinates (alternate locations kept side by side, superimposed copies, coarse coordinates):
        # distance exactly 0 is within every threshold
        for _ in range(rnd.randint(1, 2)):
            a, c = rnd.sample(atoms, 2)
            c['pos'] = list(a['pos'])
    atoms.sort(key=lambda a: a['mol'])
    return atoms


def gen_custom(rnd, fudge):
    """Residues of a custom force field that is rebuilt for every case under ONE name: the blocks of a residue name differ
    from case to case, as when a user reloads an edited force-field directory in one session."""
    ffdesc = {'name': 'verif_c10_custom', 'blocks': {}}
    for rn in rnd.sample(['RSA', 'RSB'], rnd.randint(1, 2)):
        k = rnd.randint(2, 5)
        names = ['C%d' % (i + 1) for i in range(k)]
        edges = [[names[i], names[rnd.randrange(i)]] for i in range(1, k)]
        if k > 3 and rnd.random() < 0.4:
            u, v = rnd.sample(names, 2)
            if [u, v] not in edges and [v, u] not in edges:
                edges.append([u, v])
        # node keys of a block are opaque: atom names (hand-built blocks), integers (blocks read from an .itp) or anything else
        keying = rnd.choice(['names', 'ints', 'ints-shuffled', 'names-rotated'])
        ffdesc['blocks'][rn] = {'names': names, 'edges': edges, 'keying': keying, 'kseed': rnd.randrange(10 ** 6)}
    atoms = []
    tag = 0
    box = rnd.choice([0.4, 0.7, 1.5])
    resid = rnd.choice([1, 0, 10])
    for ri in range(rnd.randint(1, 4)):
        rn = rnd.choice(sorted(ffdesc['blocks']))
        resid += 1
        for nm in ffdesc['blocks'][rn]['names']:
            if rnd.random() < 0.1:
                continue
            atoms.append({'mol': 0 if ri < 2 else rnd.choice([0, 1]), 'tag': tag, 'atomname': nm, 'element': rnd.choice(['C', 'C', 'N', 'O']),
                          'resname': rn, 'resid': resid, 'chain': 'A',
                          'pos': [rnd.uniform(0, box), rnd.uniform(0, box), rnd.uniform(0, box)]})
            tag += 1
    atoms.sort(key=lambda a: a['mol'])
    return atoms, ffdesc


def case_blocks(case):
    """resname -> graph of the reference block (node keys = atom names) for the force field of this case."""
    if not case.get('ff'):
        return ff().blocks
    import networkx as nx
    out = {}
    for rn, b_ in case['ff']['blocks'].items():
        g = nx.Graph()
        g.add_nodes_from(b_['names'])
        g.add_edges_from(b_['edges'])
        out[rn] = g
    return out


def case_ff(case):
    if not case.get('ff'):
        return ff()
    from vermouth.forcefield import ForceField
    from vermouth.molecule import Block
    f = ForceField(name=case['ff']['name'])
    for rn, b_ in case['ff']['blocks'].items():
        blk = Block(force_field=f)
        blk.name = rn
        names = b_['names']
        keying = b_.get('keying', 'names')
        if keying == 'ints':
            keys = list(range(len(names)))
        elif keying == 'ints-shuffled':
            import random
            keys = random.Random(b_['kseed']).sample(range(1, 3 * len(names) + 1), len(names))
        elif keying == 'names-rotated':
            keys = names[1:] + names[:1]        # every key is the atom name of ANOTHER atom of the block
        else:
            keys = list(names)
        key = dict(zip(names, keys))
        for nm in names:
            blk.add_node(key[nm], atomname=nm, resname=rn, resid=1, atype='x', charge_group=1)
        for u, v in b_['edges']:
            blk.add_edge(key[u], key[v])
        f.blocks[rn] = blk
    return f


def gen(rnd):
    fudge = rnd.choice([1.0, 1.0, 1.2, 1.2, 0.5, 0.8, 0.9, 1.5, 2.0])
    r_ = rnd.random()
    kind = 'fragment' if r_ < 0.55 else ('cloud' if r_ < 0.85 else 'custom')
    ffdesc = None
    if kind == 'custom':
        atoms, ffdesc = gen_custom(rnd, fudge)
        if not atoms:
            kind = 'cloud'
    if kind != 'custom':
        atoms = gen_fragment(rnd) if kind == 'fragment' else gen_cloud(rnd, fudge)
    # group into input molecules, shuffle order inside, optional gapped keys, optional pre-existing edges
    mols = {}
    for a in atoms:
        mols.setdefault(a['mol'], []).append(a)
    order = []
    for m in sorted(mols):
        lst = mols[m]
        if rnd.random() < 0.4:
            rnd.shuffle(lst)
        order.append(lst)
    mode = rnd.choice(['both', 'both', 'both', 'name', 'dist', 'none'])
    pre = []
    if rnd.random() < 0.2 and atoms:
        lst = rnd.choice(order)
        if len(lst) >= 2:
            a, c = rnd.sample(lst, 2)
            pre.append([a['tag'], c['tag']])
    out = {'kind': kind, 'mols': order, 'fudge': fudge, 'mode': mode, 'pre_edges': pre, 'gapped_keys': rnd.random() < 0.3}
    if ffdesc:
        out['ff'] = ffdesc
    return out


def run_real(case):
    from vermouth.molecule import Molecule
    from vermouth.processors.make_bonds import MakeBonds
    from vermouth.system import System
    the_ff = case_ff(case)
    system = System(force_field=the_ff)
    for lst in case['mols']:
        mol = Molecule(force_field=the_ff)
        key = {}
        for i, a in enumerate(lst):
            k = i * 3 + 2 if case['gapped_keys'] else i
            key[a['tag']] = k
            mol.add_node(k, atomname=a['atomname'], element=a['element'], resname=a['resname'], resid=a['resid'], chain=a['chain'],
                         position=np.array(a['pos'], dtype=float), tag=a['tag'])
        for u, v in case['pre_edges']:
            if u in key and v in key:
                mol.add_edge(key[u], key[v])
        system.add_molecule(mol)
    util.shared(MakeBonds, allow_name=case['mode'] in ('both', 'name'), allow_dist=case['mode'] in ('both', 'dist'),
                fudge=case['fudge']).run_system(system)
    return system


def reference(case):
    """-> (must: set of frozenset tag pairs, mustnot decided implicitly, undecided set, info)"""
    atoms = [a for lst in case['mols'] for a in lst]
    by_tag = {a['tag']: a for a in atoms}
    allow_name = case['mode'] in ('both', 'name')
    allow_dist = case['mode'] in ('both', 'dist')
    fudge = case['fudge']
    blocks = case_blocks(case)
    rid = {a['tag']: (a['mol'], a['chain'], a['resid'], a['resname'], None) for a in atoms}
    residues = {}
    for a in atoms:
        residues.setdefault(rid[a['tag']], []).append(a)
    must = set()
    name_decided = set()        # pairs whose verdict comes from the block (edge or non-edge)
    fallback = 0
    for ident, lst in residues.items():
        if not allow_name:
            continue
        blk = blocks.get(ident[3])
        names = [a['atomname'] for a in lst]
        if blk is None or len(set(names)) != len(names):
            fallback += 1
            continue
        present = {a['atomname']: a['tag'] for a in lst if a['atomname'] in blk}
        bn = list(present)
        for i, x in enumerate(bn):
            for y in bn[i + 1:]:
                pair = frozenset((present[x], present[y]))
                name_decided.add(pair)
                if blk.has_edge(x, y):
                    must.add(pair)
    undecided = set()
    near = 0
    if allow_dist:
        for i, a in enumerate(atoms):
            for c in atoms[i + 1:]:
                pair = frozenset((a['tag'], c['tag']))
                if pair in name_decided:
                    continue
                e1, e2 = a['element'], c['element']
                if e1 not in BONDI or e2 not in BONDI:
                    continue
                if e1 == 'H' and e2 == 'H':
                    continue
                if rid[a['tag']] != rid[c['tag']] and (e1 == 'H' or e2 == 'H'):
                    continue
                thr = fudge * 0.5 * (BONDI[e1] + BONDI[e2])
                d = math.dist(a['pos'], c['pos'])
                if abs(d - thr) <= 1e-9 * thr:
                    undecided.add(pair)
                    continue
                if abs(d - thr) <= 1e-3 * thr:
                    near += 1
                if d <= thr:
                    must.add(pair)
    for u, v in case['pre_edges']:
        if u in by_tag and v in by_tag and by_tag[u]['mol'] == by_tag[v]['mol']:
            must.add(frozenset((u, v)))
    return must, undecided, {'residues': len(residues), 'near_threshold': near, 'fallback_residues': fallback, 'rid': rid,
                             'by_tag': by_tag}


def classify(case, kind, pair, info):
    by = info['by_tag']
    a, c = (by[t] for t in sorted(pair))
    if 'Se' in (a['element'], c['element']):
        return 'radius/Se'
    order = [x for lst in case['mols'] for x in lst]
    first_unknown = next((i for i, x in enumerate(order) if x['element'] not in BONDI), None)
    if first_unknown is not None and first_unknown < len(order) - 1:
        return 'positions/unknown-element-shifts-atoms'
    if info['fallback_residues'] and case['mode'] == 'both':
        return 'positions/fallback-residue-uses-wrong-atoms'
    if case['fudge'] < 1 and kind == 'missing':
        return 'kdtree-cutoff/fudge-below-1'
    return 'bond-set'


def check(case, b):
    cap = util.capture()
    try:
        system = run_real(case)
    except Exception as e:
        import traceback
        return ('exception/%s' % type(e).__name__, {'error': repr(e), 'trace': traceback.format_exc()[-700:]}), None
    b.hits += 1
    must, undecided, info = reference(case)
    rid = info['rid']
    seen = {}
    got = set()
    dist_attr_bad = None
    for mi, mol in enumerate(system.molecules):
        for n, d in mol.nodes(data=True):
            if d['tag'] in seen:
                return ('conservation/atom-duplicated', {'tag': d['tag']}), info
            seen[d['tag']] = mi
        for u, v, ed in mol.edges(data=True):
            tu, tv = mol.nodes[u]['tag'], mol.nodes[v]['tag']
            got.add(frozenset((tu, tv)))
            if 'distance' in ed and frozenset((tu, tv)) not in {frozenset(x) for x in case['pre_edges']}:
                dd = math.dist(info['by_tag'][tu]['pos'], info['by_tag'][tv]['pos'])
                if not (abs(ed['distance'] - dd) <= 1e-9 or (math.isnan(ed['distance']) and math.isnan(dd))):
                    dist_attr_bad = (tu, tv, ed['distance'], dd)
    if set(seen) != set(rid):
        return ('conservation/atom-lost', {'missing': sorted(set(rid) - set(seen))[:6]}), info
    # residues whole, molecules connected on the residue level
    res_mol = {}
    for t, mi in seen.items():
        if res_mol.setdefault(rid[t], mi) != mi:
            return ('partition/residue-split', {'residue': [str(x) for x in rid[t]]}), info
    for mi, mol in enumerate(system.molecules):
        rs = {rid[d['tag']] for _, d in mol.nodes(data=True)}
        adj = {r: set() for r in rs}
        for u, v in mol.edges:
            ru, rv = rid[mol.nodes[u]['tag']], rid[mol.nodes[v]['tag']]
            if ru != rv:
                adj[ru].add(rv)
                adj[rv].add(ru)
        start = next(iter(rs))
        stack, comp = [start], {start}
        while stack:
            x = stack.pop()
            for y in adj[x]:
                if y not in comp:
                    comp.add(y)
                    stack.append(y)
        if comp != rs:
            return ('partition/molecule-not-connected', {'molecule': mi, 'residues': len(rs), 'component': len(comp)}), info
    # molecules are exactly the connected components on the residue level
    extra = [p for p in got if p not in must and p not in undecided]
    missing = [p for p in must if p not in got]
    if extra or missing:
        kind = 'extra' if extra else 'missing'
        p = (extra or missing)[0]
        a, c = (info['by_tag'][t] for t in sorted(p))
        thr = case['fudge'] * 0.5 * (BONDI.get(a['element'], float('nan')) + BONDI.get(c['element'], float('nan')))
        detail = {'extra': len(extra), 'missing': len(missing), 'example': {
            'kind': kind, 'atoms': [[a['atomname'], a['element'], a['resname'], a['resid'], a['mol']],
                                    [c['atomname'], c['element'], c['resname'], c['resid'], c['mol']]],
            'distance': math.dist(a['pos'], c['pos']), 'threshold': thr}, 'mode': case['mode'], 'fudge': case['fudge']}
        return (classify(case, kind, p, info), detail), info
    if dist_attr_bad:
        return ('distance-attribute', {'pair': dist_attr_bad[:2], 'observed': dist_attr_bad[2], 'expected': dist_attr_bad[3]}), info
    info['bonds'] = len(got)
    info['molecules_out'] = len(system.molecules)
    return None, info


def cases(tier, seed):
    nb, per = (32, 50) if tier == 'quick' else (128, 500)
    return [{'seed': seed, 'batch': b, 'n': per} for b in range(nb)]


def run_case(params):
    rnd = harness.rng('C10', params['seed'], params['batch'])
    b = harness.Batch()
    for j in range(params['n']):
        b.total += 1
        case = gen(rnd)
        p, info = check(case, b)
        natoms = sum(len(x) for x in case['mols'])
        desc = {'kind': case['kind'], 'fudge': case['fudge'], 'mode': case['mode'], 'n_atoms': natoms,
                'input_molecules': len(case['mols']), 'pre_edges': case['pre_edges']}
        if p:
            small = dict(case) if natoms <= 40 else 'regenerate from params'
            b.violation(p[0], 'guessed bonds differ from the criteria (%s)' % p[0], {'subcase': j, 'detail': p[1], 'desc': desc, 'case': small})
            continue
        order = [x for lst in case['mols'] for x in lst]
        unknown_ahead = any(x['element'] not in BONDI for x in order[:-1])
        b.feat({'kind_' + case['kind']: 1, 'mode_' + case['mode']: 1, 'bonds': info['bonds'], 'near_threshold_pairs': info['near_threshold'],
                'fallback_residues': info['fallback_residues'], 'fudge_below_1': int(case['fudge'] < 1),
                'unknown_element_ahead_of_atoms': int(unknown_ahead), 'several_input_molecules': int(len(case['mols']) > 1)})
        if info['residues'] >= 2 and (info['near_threshold'] or unknown_ahead):
            b.nontrivial([desc, [[a['atomname'], a['resid'], [round(x, 4) for x in a['pos']]] for a in order][:60]], desc)
    return b.result()
