"""C18 - Go-model sites and contacts mirror the backbone and the contact map.

Events : nodes, 'virtual_sitesn' and 'exclusions' interactions of the merged molecule and
         system.gmx_topology_params (atomtypes, nonbond_params) after GoPipeline.run_system.
Oracle : set-based reference for sites (bijection with backbone particles) and contacts (symmetric, far enough on
         the residue graph, backbone distance strictly inside the cut-off window), written from the statement.
"""
import itertools
import math

import numpy as np

from .. import harness, util

PROPERTY = 'C18'
LEVEL = 'exploration'
RULE = ('Batches of generated coarse-grained systems: 1-4 chains given as separate molecules (merged by the pipeline) or '
        'already merged, 1-9 residues per chain with BB and 0-2 side-chain beads, input residue numbers with offsets '
        'and gaps, disulfide-like cross-links within and between chains; contact lists without repeats that are '
        'symmetric, one-directional, refer to absent residues/chains; backbone pairs planted just inside/outside each '
        'cut-off and at the separation limit; varied cut-offs, res_dist 0-4, epsilon, moltype / backbone / site names. '
        'Non-trivial = >= 2 chains with a cross-link, >= 1 expected contact and >= 1 contact rejected by each of two '
        'different filters. distinct = distinct (system, contacts, parameters) hashes. Also: lattice mode (coordinates and cut-offs multiples of 0.25 nm) with backbone pairs exactly at a cut-off, decided as excluded.')
ASSUMPTIONS = ['(chain, input resid) identifies a residue uniquely within the system (as the contact map requires)',
               'contact lists contain no repeated entries',
               'backbone distances within 1e-9 (relative) of a cut-off are undecided',
               'moltype names that are a prefix of a particle type of the force field are generated separately and '
               'reported under their own mechanism key']
MIN_HITS = {'quick': 1500, 'thorough': 60000}
CASE_TIMEOUT = 900


def gen(rnd):
    nch = rnd.randint(1, 4)
    chains = []
    key = 0
    scale = rnd.choice([1.0, 1.5, 2.0])
    for c in range(nch):
        chain = 'ABCD'[c]
        old = rnd.randint(-3, 30)
        res = []
        for i in range(rnd.randint(1, 9)):
            old += rnd.choice([1, 1, 1, 2, 7])
            beads = ['BB'] + ['SC%d' % (s + 1) for s in range(rnd.choice([0, 0, 1, 2]))]
            res.append({'old': old, 'resname': rnd.choice(['ALA', 'CYS', 'LYS']), 'beads': beads,
                        'pos': [[rnd.uniform(0, scale) for _ in range(3)] for _ in beads]})
            if i and rnd.random() < 0.12:
                # a chain break: this residue is not bonded to the previous one although their numbers are close (a missing
                # loop): along the residue graph the two are far apart or not connected at all
                res[-1]['break_before'] = True
        chains.append({'chain': chain, 'res': res})
    allres = [(ci, ri) for ci, ch in enumerate(chains) for ri in range(len(ch['res']))]
    cross = []
    if len(allres) > 3 and rnd.random() < 0.6:
        for _ in range(rnd.randint(1, 2)):
            a, b = rnd.sample(allres, 2)
            if a[0] != b[0] or abs(a[1] - b[1]) > 1:
                cross.append((a, b))
    lo = rnd.choice([0.3, 0.5])
    hi = rnd.choice([0.9, 1.1, 1.6])
    exact = []
    if rnd.random() < 0.3:
        # lattice mode: coordinates and cut-offs are multiples of 0.25 nm, so backbone distances along an axis equal a cut-off
        # bit for bit ("strictly between the cut-offs" is decided at equality, not next to it)
        lo = rnd.choice([0.25, 0.5])
        hi = rnd.choice([0.75, 1.0, 1.25, 1.5])
        for ch in chains:
            for r in ch['res']:
                r['pos'] = [[rnd.randrange(0, 9) * 0.25 for _ in range(3)] for _ in r['beads']]
        if len(allres) >= 2:
            for _ in range(rnd.randint(1, 3)):
                a, b = rnd.sample(allres, 2)
                pa = list(chains[a[0]]['res'][a[1]]['pos'][0])
                ax = rnd.randrange(3)
                pa[ax] += rnd.choice([lo, hi]) * rnd.choice([1, -1])
                chains[b[0]]['res'][b[1]]['pos'][0] = pa
                exact.append((a, b))
    # plant near-cutoff backbone pairs
    if len(allres) >= 2 and rnd.random() < 0.5 and not exact:
        for _ in range(rnd.randint(1, 3)):
            a, b = rnd.sample(allres, 2)
            v = np.array([rnd.gauss(0, 1) for _ in range(3)])
            v /= np.linalg.norm(v)
            t = rnd.choice([lo, hi]) * (1 + rnd.choice([-1e-6, 1e-6, -1e-3, 1e-3]))
            pa = np.array(chains[a[0]]['res'][a[1]]['pos'][0])
            chains[b[0]]['res'][b[1]]['pos'][0] = list(pa + v * t)
    contacts = set()
    pairs = list(itertools.permutations(allres, 2))
    rnd.shuffle(pairs)

    def ident(x):
        return (chains[x[0]]['res'][x[1]]['old'], chains[x[0]]['chain'])
    for a, b in pairs[:rnd.randint(0, 3 * len(allres))]:
        contacts.add(ident(a) + ident(b))
        if rnd.random() < 0.7:
            contacts.add(ident(b) + ident(a))
    for a, b in exact:
        contacts.add(ident(a) + ident(b))
        contacts.add(ident(b) + ident(a))
    if rnd.random() < 0.3 and allres:
        x = ident(allres[0])
        contacts.add((999, 'A') + x)
        contacts.add(x + (999, 'A'))
    if rnd.random() < 0.2 and allres:
        x = ident(allres[-1])
        contacts.add((x[0], 'Z') + ident(allres[0]))
        contacts.add(ident(allres[0]) + (x[0], 'Z'))
    contacts = sorted(contacts)
    rnd.shuffle(contacts)
    return {'chains': chains, 'cross': cross, 'contacts': [list(c) for c in contacts], 'lo': lo, 'hi': hi, 'lattice': bool(exact),
            'res_dist': rnd.choice([0, 1, 2, 3, 4]), 'eps': rnd.choice([9.414, 12.0]),
            'moltype': rnd.choice(['mol', 'molecule_0', 'Go_prot', 'P'] if rnd.random() < 0.15 else ['mol', 'molecule_0', 'Go_prot']),
            'bb': rnd.choice(['BB', 'BB', 'B1']), 'site': rnd.choice(['CA', 'VS']),
            'premerged': rnd.random() < 0.3, 'key_gap': rnd.choice([1, 1, 3]),
            # residue numbers of the molecule: renumbered from 1 per chain, or the input numbering kept (what the pipeline does
            # for a chain that is not renumbered by the merge: expression tags numbered -2, -1, 0 keep their sign)
            # kept to one chain: Molecule.merge_molecule adds the receiver's last residue number to the numbers of the merged
            # molecule, which only keeps them apart when those start at 1 or above (merge numbering is C12's subject)
            'resid_old': nch == 1 and rnd.random() < 0.6}


def build(case):
    from vermouth.forcefield import ForceField
    from vermouth.molecule import Molecule
    from vermouth.system import System
    ff = ForceField(name='verif_c18')
    system = System(force_field=ff)
    info = []     # per residue: dict(chain, old, bb key in final molecule (computed after merge by order), ...)
    mols = []
    first_bb = {}
    for ci, ch in enumerate(case['chains']):
        mol = Molecule(force_field=ff, nrexcl=1)
        k = 0
        cg = 0
        prev = None
        for ri, r in enumerate(ch['res']):
            bbk = None
            for nm, pos in zip(r['beads'], r['pos']):
                cg += 1
                name = case['bb'] if nm == 'BB' else nm
                mol.add_node(k, atomname=name, resname=r['resname'],
                             resid=r['old'] if case.get('resid_old') else ri + 1, _old_resid=r['old'], chain=ch['chain'],
                             charge_group=cg, atype='P2' if nm == 'BB' else 'C3', charge=0.0, mass=72.0,
                             position=np.array(pos, dtype=float), tag=(ci, ri, nm))
                if nm == 'BB':
                    bbk = k
                    if prev is not None and not r.get('break_before'):
                        mol.add_edge(prev, k)
                    prev = k
                else:
                    mol.add_edge(bbk, k)
                k += case['key_gap']
        mols.append(mol)
    if case['premerged'] or case['cross']:
        # cross links need one molecule: merge up front (as the CLI does for linked chains)
        base = mols[0]
        for m in mols[1:]:
            base.merge_molecule(m)
        tagkey = {d['tag']: n for n, d in base.nodes(data=True)}
        for a, b in case['cross']:
            base.add_edge(tagkey[(a[0], a[1], 'BB')], tagkey[(b[0], b[1], 'BB')])
        system.add_molecule(base)
    else:
        for m in mols:
            system.add_molecule(m)
    return system


def reference(case, mol, nold):
    """Expected contacts from the statement. mol = merged molecule after the pipeline; the first nold nodes are old."""
    old_nodes = list(mol.nodes)[:nold]
    tagkey = {mol.nodes[n]['tag']: n for n in old_nodes}
    rid = {n: (mol.nodes[n]['chain'], mol.nodes[n]['resid'], mol.nodes[n]['resname']) for n in old_nodes}
    adj = {}
    for u, v in mol.edges:
        if u in rid and v in rid and rid[u] != rid[v]:
            adj.setdefault(rid[u], set()).add(rid[v])
            adj.setdefault(rid[v], set()).add(rid[u])

    def gdist(a, b):
        seen = {a: 0}
        fr = [a]
        while fr:
            nx_ = []
            for x in fr:
                for y in adj.get(x, ()):
                    if y not in seen:
                        seen[y] = seen[x] + 1
                        nx_.append(y)
            fr = nx_
        return seen.get(b, math.inf)
    by_ident = {}
    for ci, ch in enumerate(case['chains']):
        for ri, r in enumerate(ch['res']):
            by_ident[(r['old'], ch['chain'])] = tagkey[(ci, ri, 'BB')]
    cs = {tuple(c) for c in case['contacts']}
    exp = {}
    undecided = set()
    rej = {'one-directional': 0, 'absent': 0, 'separation': 0, 'short': 0, 'long': 0}
    for (ra, ca, rb, cb) in cs:
        if (ra, ca) not in by_ident or (rb, cb) not in by_ident:
            rej['absent'] += 1
            continue
        if (rb, cb, ra, ca) not in cs:
            rej['one-directional'] += 1
            continue
        ba, bb_ = by_ident[(ra, ca)], by_ident[(rb, cb)]
        pair = frozenset((ba, bb_))
        if gdist(rid[ba], rid[bb_]) <= case['res_dist']:
            rej['separation'] += 1
            continue
        d = math.dist(mol.nodes[ba]['position'], mol.nodes[bb_]['position'])
        on_lattice = case.get('lattice') and all(float(x * 4).is_integer() for n_ in (ba, bb_) for x in mol.nodes[n_]['position'])
        if min(abs(d - case['lo']) / case['lo'], abs(d - case['hi']) / case['hi']) < 1e-9 and not on_lattice:
            # (on the lattice every step of the distance computation is exact, so equality with a cut-off is decided: excluded)
            undecided.add(pair)
            continue
        if on_lattice and d in (case['lo'], case['hi']):
            rej['exactly-on-cut-off'] = rej.get('exactly-on-cut-off', 0) + 1
        if d <= case['lo']:
            rej['short'] += 1
            continue
        if d >= case['hi']:
            rej['long'] += 1
            continue
        exp[pair] = d
    return exp, undecided, rej


def check(case, b):
    from vermouth.rcsu.go_pipeline import GoPipeline
    system = build(case)
    nold = sum(len(m) for m in system.molecules)
    bb_before = [(d['tag'], d['chain'], d['resname']) for m in system.molecules for n, d in m.nodes(data=True)
                 if d['atomname'] == case['bb']]
    system.go_params['go_map'].append([tuple(c) for c in case['contacts']])
    try:
        GoPipeline.run_system(system, moltype=case['moltype'], cutoff_short=case['lo'], cutoff_long=case['hi'],
                              go_eps=case['eps'], res_dist=case['res_dist'], go_anchor_bead=case['bb'],
                              go_atomname=case['site'])
    except (Exception, SystemExit) as e:
        import traceback
        return ('exception/%s' % type(e).__name__, {'error': repr(e), 'trace': traceback.format_exc()[-700:]}), None
    b.hits += 1
    if len(system.molecules) != 1:
        return ('molecule-count', {'n': len(system.molecules)}), None
    mol = system.molecules[0]
    nodes = list(mol.nodes)
    old, new = nodes[:nold], nodes[nold:]
    if len(nodes) != nold + len(bb_before):
        return ('sites/count', {'sites': len(nodes) - nold, 'backbone_particles': len(bb_before)}), None
    if any(mol.nodes[n].get('atomname') == case['site'] and 'tag' not in mol.nodes[n] for n in old):
        return ('sites/not-after-existing-atoms', {}), None
    bbs = [n for n in old if mol.nodes[n]['atomname'] == case['bb']]
    vsn = [tuple(i.atoms) for i in mol.interactions.get('virtual_sitesn', [])]
    site_of = {}
    types = {}
    maxold = max(old)
    for n in new:
        d = mol.nodes[n]
        if n <= maxold:
            return ('sites/key-not-after-existing', {'site': n, 'max_existing': maxold}), None
        cons = [a for a in vsn if a[0] == n]
        if len(cons) != 1 or len(cons[0]) != 2 or cons[0][1] not in bbs:
            return ('sites/construction', {'site': n, 'virtual_sitesn': cons}), None
        bbk = cons[0][1]
        if bbk in site_of:
            return ('sites/two-sites-one-backbone', {'backbone': bbk}), None
        site_of[bbk] = n
        bd = mol.nodes[bbk]
        if not np.array_equal(np.asarray(d.get('position')), np.asarray(bd['position'])):
            return ('sites/position', {'site': n}), None
        for attr in ('resid', 'resname', 'chain'):
            if d.get(attr) != bd.get(attr):
                return ('sites/residue-identity', {'site': n, 'attr': attr, 'site_value': d.get(attr), 'bb_value': bd.get(attr)}), None
        if d.get('mass') != 0 or d.get('charge') != 0:
            return ('sites/mass-charge', {'site': n, 'mass': d.get('mass'), 'charge': d.get('charge')}), None
        if d.get('atomname') != case['site']:
            return ('sites/name', {'site': n, 'atomname': d.get('atomname')}), None
        want = '%s_%s' % (case['moltype'], bd['resid'])
        if d.get('atype') != want:
            return ('sites/type', {'site': n, 'atype': d.get('atype'), 'expected': want}), None
        types[d['atype']] = bbk
    if len(site_of) != len(bbs) or len(types) != len(bbs) or len(vsn) != len(bbs):
        return ('sites/bijection', {'sites': len(site_of), 'types': len(types), 'backbone': len(bbs), 'vsn': len(vsn)}), None
    at = [a.molecule.nodes[a.node]['atype'] for a in system.gmx_topology_params['atomtypes']]
    if sorted(at) != sorted(types):
        return ('sites/atomtypes', {'declared': sorted(at)[:6], 'expected': sorted(types)[:6]}), None
    exp, undecided, rej = reference(case, mol, nold)
    got = {}
    for p in system.gmx_topology_params['nonbond_params']:
        a, b_ = p.atoms
        if a not in types or b_ not in types:
            return ('contacts/unknown-type', {'atoms': [a, b_], 'moltype': case['moltype']}), (exp, rej)
        pair = frozenset((types[a], types[b_]))
        if pair in got:
            return ('contacts/duplicate', {'atoms': [a, b_]}), (exp, rej)
        got[pair] = p
    extra = [p for p in got if p not in exp and p not in undecided]
    missing = [p for p in exp if p not in got]
    if extra or missing:
        ex = []
        for p in (extra + missing)[:4]:
            u, v = sorted(p)
            ex.append({'kind': 'extra' if p in got else 'missing', 'bb': [u, v],
                       'residues': [[mol.nodes[x]['chain'], mol.nodes[x]['_old_resid']] for x in (u, v)],
                       'd': math.dist(mol.nodes[u]['position'], mol.nodes[v]['position'])})
        return ('contacts/set', {'extra': len(extra), 'missing': len(missing), 'examples': ex,
                                 'lo': case['lo'], 'hi': case['hi'], 'res_dist': case['res_dist']}), (exp, rej)
    for pair, d in exp.items():
        p = got[pair]
        if abs(p.sigma - d / 2 ** (1 / 6)) > 1e-12 * max(1, d) or p.epsilon != case['eps']:
            return ('contacts/sigma-epsilon', {'sigma': p.sigma, 'expected_sigma': d / 2 ** (1 / 6), 'epsilon': p.epsilon}), (exp, rej)
    excl = [frozenset(i.atoms) for i in mol.interactions.get('exclusions', [])]
    want = [p for p in got]
    if sorted(map(sorted, excl)) != sorted(map(sorted, want)):
        return ('contacts/exclusions', {'observed': sorted(map(sorted, excl))[:6], 'expected': sorted(map(sorted, want))[:6]}), (exp, rej)
    return None, (exp, rej)


def cases(tier, seed):
    nb, per = (32, 50) if tier == 'quick' else (128, 500)
    return [{'seed': seed, 'batch': b, 'n': per} for b in range(nb)]


def run_case(params):
    rnd = harness.rng('C18', params['seed'], params['batch'])
    b = harness.Batch()
    for j in range(params['n']):
        case = gen(rnd)
        p, extra = check(case, b)
        if p:
            key = p[0]
            if case['moltype'] == 'P' and key.startswith(('contacts', 'exception')):
                key = 'contacts/moltype-prefix-of-particle-type'
            b.violation(key, 'Go model differs from backbone / contact map (%s)' % p[0],
                        {'subcase': j, 'detail': p[1], 'case': case})
            continue
        exp, rej = extra
        b.feat({'expected_contacts': len(exp), 'rej_one_directional': rej['one-directional'], 'rej_absent': rej['absent'],
                'rej_separation': rej['separation'], 'rej_short': rej['short'], 'rej_long': rej['long'], 'rej_exactly_on_cut_off': rej.get('exactly-on-cut-off', 0),
                'with_cross_link': int(bool(case['cross'])), 'several_molecules_merged_by_pipeline':
                    int(not (case['premerged'] or case['cross']) and len(case['chains']) > 1)})
        if len(case['chains']) >= 2 and case['cross'] and exp and sum(1 for v in rej.values() if v) >= 2:
            b.nontrivial(case, {'chains': [[c['chain'], [r['old'] for r in c['res']]] for c in case['chains']],
                                'cross_links': case['cross'], 'n_contacts_listed': len(case['contacts']),
                                'expected_contacts': len(exp), 'rejections': rej, 'lo': case['lo'], 'hi': case['hi'],
                                'res_dist': case['res_dist']})
    return b.result()
