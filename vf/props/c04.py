"""C04 - atoms are identified by connectivity, not by the names in the input.

Events : the input molecule (elements, names, edges per node key, recorded BEFORE the call because repair overwrites them)
         and the molecule returned by RepairGraph.run_molecule (atomname, element, PTM_atom, edges).
Oracle : by-construction ground truth per presentation class + embedding checker:
         - block minus k atoms, any renaming / order  -> afterwards the residue equals the block by name exactly
           (names unique and complete, bonds identical), no atom flagged;
         - block plus extras of an element absent from the block -> exactly the extras flagged, rest equals the block;
         - block plus same-element extras -> number flagged = number of extras, unflagged atoms form a bond- and
           element-preserving embedding, block complete;
         - mixed (missing and extras) -> bounds on the number flagged + embedding + completeness.
"""
import copy

from .. import harness, util
from ..gen import atomistic

PROPERTY = 'C04'
LEVEL = 'exploration'
RULE = ('Blocks of the shipped atomistic force fields (charmm, amber, gromos; amino acids always, other blocks up to 30 atoms '
        'in quick / 45 in thorough, sampled) presented as: canonical; atom order permuted; names scrambled (all atoms, '
        'hydrogens only, pairwise swaps of same-element atoms); 1-3 atoms removed (leaves, interior, bonded pairs); 1-3 '
        'extra atoms attached (extra H, OXT-like O, foreign element); alone and inside 2-4 residue peptides with peptide '
        'bonds; terminal modifications requested through the modification attribute. Non-trivial = (scrambled or permuted) '
        'and (missing or extra atoms). distinct = distinct (force field, block, presentation) hashes. Also: names borrowed from an isosteric neighbour block (repaired together, shared symmetry cache); names following an element-violating automorphism of the uncoloured residue graph (mirror) or swapped across elements; all present atoms carrying one name; only one to three atoms left.')
ASSUMPTIONS = ['termination is not claimed: the largest-common-subgraph search is exponential on some scrambled residues; a '
               'case that exceeds its watchdog is inconclusive',
               'input atoms carry a correct element; residue names are correct (documented requirements of RepairGraph)',
               'for mixed presentations only bounds on the number of flagged atoms are enforced']
MIN_HITS = {'quick': 800, 'thorough': 30000}
CASE_TIMEOUT = 1700
SHARD_TIMEOUT = {'quick': 900, 'thorough': 3400}
MAX_INCONCLUSIVE_FRACTION = 0.25
_BLOCKS = {}


def eligible_blocks(ffname, maxsize):
    key = (ffname, maxsize)
    if key not in _BLOCKS:
        import networkx as nx
        ff = atomistic.native_ff(ffname)
        out = []
        for name, b in ff.blocks.items():
            if not (2 <= len(b) <= maxsize):
                continue
            if not all('element' in d and 'atomname' in d for _, d in b.nodes(data=True)):
                continue
            if not nx.is_connected(b):
                continue
            out.append(name)
        _BLOCKS[key] = sorted(out)
    return _BLOCKS[key]


def gen(rnd, tier):
    ffname = rnd.choice(['charmm', 'charmm', 'amber', 'gromos'])
    maxsize = 30 if tier == 'quick' else 45
    ff = atomistic.native_ff(ffname)
    aa = [a for a in atomistic.aa_names(ff) if len(ff.blocks[a]) <= maxsize]
    if rnd.random() < 0.6 and aa:
        block = rnd.choice(aa)
    else:
        block = rnd.choice(eligible_blocks(ffname, maxsize))
    peptide = block in aa and rnd.random() < 0.4
    case = {'ff': ffname, 'block': block, 'permute': rnd.random() < 0.6,
            'scramble': rnd.choice(['none', 'none', 'all', 'hydrogens', 'swap-same-element', 'mirror', 'mirror', 'swap-any', 'same-name']),
            'remove': rnd.choice([0, 0, 1, 1, 2, 3]), 'remove_mode': rnd.choice(['leaf', 'any', 'bonded-pair', 'all-but-few']),
            'extra': rnd.choice([0, 0, 0, 1, 2]), 'extra_kind': rnd.choice(['H', 'O', 'foreign']),
            'neighbours': [rnd.choice(aa) for _ in range(rnd.randint(1, 3))] if peptide else [],
            'position_in_peptide': rnd.randint(0, 3), 'seed': rnd.randrange(10 ** 9)}
    if peptide and block in aa and rnd.random() < 0.35:
        small = [i for i, nb in enumerate(case['neighbours']) if nb in ('ALA', 'GLY', 'SER', 'CYS', 'THR', 'VAL')]
        if small:
            i = rnd.choice(small)
            # index of that neighbour in the final sequence (the residue under test is inserted at position_in_peptide)
            posn = min(case['position_in_peptide'], len(case['neighbours']))
            case['mutate_neighbour'] = i if i < posn else i + 1
    if ffname == 'charmm' and rnd.random() < 0.45:
        # hostile names: the residue carries the atom names of an isosteric neighbour (same heavy-atom shape, other
        # elements), both given without hydrogens; the neighbour is repaired first and shares the symmetry cache
        nb, tg = rnd.choice([('ASP', 'ASN'), ('ASP', 'ASN'), ('GLU', 'GLN'), ('GLU', 'GLN'), ('VAL', 'THR'), ('VAL', 'THR'),
                             ('ASN', 'ASP'), ('GLN', 'GLU'), ('THR', 'VAL'), ('SER', 'CYS'), ('CYS', 'SER')])
        case.update({'block': tg, 'neighbours': [nb], 'position_in_peptide': 1, 'borrow': nb, 'scramble': 'borrow', 'remove': 0,
                     'extra': 0, 'swap_order': rnd.random() < 0.8, 'borrow_fraction': rnd.choice([1.0, 1.0, 0.5, 0.3]),
                     'order_swaps': rnd.choice([0, 0, 1, 2])})
        return case
    if case['scramble'] == 'same-name' and case['remove'] == 0:
        case['remove'] = 1
    if len(ff.blocks[block]) > 22 and case['scramble'] in ('all', 'swap-same-element', 'swap-any', 'same-name') and \
            case['remove_mode'] != 'all-but-few':
        case['scramble'] = 'hydrogens'       # keeps the exponential search within the watchdog most of the time
    return case


def build(case):
    """-> (molecule, truth) ; truth['target'] = node keys of the residue under test, by block atom name where kept."""
    import networkx as nx
    from vermouth.molecule import Molecule
    rnd = harness.rng('C04build', case['seed'])
    ff = atomistic.native_ff(case['ff'])
    blk = ff.blocks[case['block']]
    names = list(blk.nodes)
    removed = []
    if case['remove']:
        k = min(case['remove'], len(names) - 1)
        if case['remove_mode'] == 'leaf':
            leaves = [n for n in names if blk.degree[n] == 1]
            rnd.shuffle(leaves)
            removed = leaves[:k]
        elif case['remove_mode'] == 'bonded-pair' and blk.number_of_edges():
            u, v = rnd.choice(sorted(blk.edges))
            removed = [u, v][:max(2, k)] if len(names) > 2 else [u]
        elif case['remove_mode'] == 'all-but-few':
            # only one to three (connected) atoms of the residue are left
            start = rnd.choice([n for n in names if blk.nodes[n]['element'] != 'H'] or names)
            keep = [start]
            for nb in blk.neighbors(start):
                if len(keep) < rnd.randint(1, 3):
                    keep.append(nb)
            removed = [n for n in names if n not in keep]
        else:
            removed = rnd.sample(names, k)
    if case.get('borrow'):
        removed = [n for n in names if blk.nodes[n]['element'] == 'H']
    kept = [n for n in names if n not in removed]
    if not kept:
        kept, removed = names[:1], names[1:]
    seq = list(case['neighbours'])
    pos = min(case['position_in_peptide'], len(seq))
    seq.insert(pos, case['block'])
    borrow_iso = None
    if case.get('borrow'):
        from ..oracles import match as _match
        nbk = ff.blocks[case['borrow']]
        heavy_n = nbk.subgraph([n for n in nbk.nodes if nbk.nodes[n]['element'] != 'H'])
        heavy_t = blk.subgraph(kept)
        isos = list(_match.induced_isos(heavy_n, heavy_t, lambda g, p_: True))   # {target atom: neighbour atom}; elements ignored
        if isos:
            borrow_iso = rnd.choice(isos)
    mol = Molecule(force_field=ff)
    k = 0
    key = {}
    entries = []     # (residue index, block atom name) in insertion order
    for ri, rn in enumerate(seq):
        b = ff.blocks[rn]
        atom_names = [n for n in b.nodes if not (ri == pos and n in removed)]
        if case.get('borrow'):
            atom_names = [n for n in atom_names if b.nodes[n]['element'] != 'H']
        if ri == pos and borrow_iso and case.get('swap_order'):
            # list the atoms in the order in which the neighbour lists the atoms whose names they borrow
            nb_order = list(ff.blocks[case['borrow']].nodes)
            atom_names.sort(key=lambda a: nb_order.index(borrow_iso[a]))
            for _ in range(case.get('order_swaps', 0)):
                if len(atom_names) >= 2:
                    i = rnd.randrange(len(atom_names) - 1)
                    atom_names[i], atom_names[i + 1] = atom_names[i + 1], atom_names[i]
        elif ri == pos and case['permute']:
            rnd.shuffle(atom_names)
        for an in atom_names:
            entries.append((ri, an))
    # node keys: contiguous in insertion order
    for ri, an in entries:
        b = ff.blocks[seq[ri]]
        key[(ri, an)] = k
        mol.add_node(k, atomname=an, element=b.nodes[an]['element'], resname=seq[ri], resid=ri + 1, chain='A', atomid=k + 1)
        if ri == case.get('mutate_neighbour') and ri != pos:
            # a requested mutation elsewhere in the molecule, TO the residue type under test (as -mutate does): what is done
            # for that residue must not change how the residue under test, for which nothing is requested, is repaired
            mol.nodes[k]['mutation'] = [case['block']]
        k += 1
    for ri, rn in enumerate(seq):
        b = ff.blocks[rn]
        edges = list(b.edges)
        if ri == pos and borrow_iso and case.get('swap_order'):
            inv = {v: k for k, v in borrow_iso.items()}
            nbk = ff.blocks[case['borrow']]
            edges = [(inv[u], inv[v]) for u, v in nbk.edges if u in inv and v in inv]
        for u, v in edges:
            if (ri, u) in key and (ri, v) in key:
                mol.add_edge(key[(ri, u)], key[(ri, v)])
        if ri and (ri - 1, 'C') in key and (ri, 'N') in key:
            mol.add_edge(key[(ri - 1, 'C')], key[(ri, 'N')])
    target = {an: key[(pos, an)] for an in kept}
    # scramble names of the residue under test
    mode = case['scramble']
    if mode == 'all':
        for i, (an, n) in enumerate(sorted(target.items())):
            mol.nodes[n]['atomname'] = 'Q%d' % i
    elif mode == 'hydrogens':
        hs = [n for an, n in target.items() if mol.nodes[n]['element'] == 'H']
        for i, n in enumerate(hs):
            mol.nodes[n]['atomname'] = 'HX%d' % i
    elif mode == 'borrow':
        if borrow_iso:
            for an, n in target.items():
                if borrow_iso[an] != an and rnd.random() < case.get('borrow_fraction', 1.0):
                    mol.nodes[n]['atomname'] = borrow_iso[an]
    elif mode == 'same-name':
        # every atom that is present carries one and the same name (a canonical one or a foreign one)
        nm = rnd.choice(sorted(target) + ['X'])
        for an, n in target.items():
            mol.nodes[n]['atomname'] = nm
    elif mode in ('mirror', 'swap-any'):
        # 'mirror': the names follow an automorphism of the *uncoloured* residue graph that maps some atom onto an atom of another
        # element (HSP ring mirror, N-HN <-> C=O ...): every bond still joins the same pair of names, only the elements
        # disagree with the names.  'swap-any' (also the fall-back): two atoms of different elements exchange names.
        import networkx as nx
        sub = nx.Graph(mol.subgraph(list(target.values())))
        nodes = sorted(sub.nodes)
        sigma = None
        if mode == 'mirror':
            pairs = [(u, v) for u in nodes for v in nodes if u != v and sub.nodes[u]['element'] != sub.nodes[v]['element']
                     and sub.degree(u) == sub.degree(v)]
            rnd.shuffle(pairs)
            for u, v in pairs[:12]:
                g1, g2 = nx.Graph(sub.edges), nx.Graph(sub.edges)
                g1.add_nodes_from(nodes)
                g2.add_nodes_from(nodes)
                nx.set_node_attributes(g1, {n: int(n == u) for n in nodes}, 'mark')
                nx.set_node_attributes(g2, {n: int(n == v) for n in nodes}, 'mark')
                gm = nx.isomorphism.GraphMatcher(g1, g2, node_match=lambda a, c: a['mark'] == c['mark'])
                if gm.is_isomorphic():
                    sigma = dict(gm.mapping)
                    break
        if sigma is None:
            het = [(u, v) for u in nodes for v in nodes if u < v and sub.nodes[u]['element'] != sub.nodes[v]['element']]
            if het:
                u, v = rnd.choice(het)
                sigma = {n: n for n in nodes}
                sigma[u], sigma[v] = v, u
        if sigma:
            canon = {n: mol.nodes[n]['atomname'] for n in nodes}
            for n in nodes:
                mol.nodes[n]['atomname'] = canon[sigma[n]]
    elif mode == 'swap-same-element':
        by_el = {}
        for an, n in target.items():
            by_el.setdefault(mol.nodes[n]['element'], []).append(n)
        for el, lst in by_el.items():
            if len(lst) >= 2:
                a, c = rnd.sample(lst, 2)
                mol.nodes[a]['atomname'], mol.nodes[c]['atomname'] = mol.nodes[c]['atomname'], mol.nodes[a]['atomname']
    # extras
    extras = []
    block_elements = {d['element'] for _, d in blk.nodes(data=True)}
    for j in range(case['extra']):
        kind = case['extra_kind']
        if kind == 'foreign':
            el = next(e for e in ['P', 'S', 'F', 'Cl', 'Zn'] if e not in block_elements)
        else:
            el = kind
        heavy = [n for an, n in target.items() if mol.nodes[n]['element'] != 'H']
        anchor = rnd.choice(heavy or list(target.values()))
        mol.add_node(k, atomname='%sE%d' % (el[0], j), element=el, resname=case['block'], resid=pos + 1, chain='A', atomid=k + 1)
        mol.add_edge(k, anchor)
        extras.append(k)
        k += 1
    return mol, {'target': target, 'removed': removed, 'extras': extras, 'pos': pos, 'seq': seq,
                 'foreign_extras': case['extra_kind'] == 'foreign', 'block_elements': sorted(block_elements)}


def check(case, b):
    from vermouth.processors.repair_graph import RepairGraph
    mol, truth = build(case)
    ff = atomistic.native_ff(case['ff'])
    blk = ff.blocks[case['block']]
    resid = truth['pos'] + 1
    before = {n: dict(d) for n, d in mol.nodes(data=True) if d['resid'] == resid}
    before_edges = {frozenset(e) for e in mol.edges if e[0] in before and e[1] in before}
    out = util.shared(RepairGraph, include_graph=False).run_molecule(mol)
    b.hits += 1
    after = {n: d for n, d in out.nodes(data=True) if d.get('resid') == resid and d.get('chain') == 'A'}
    flagged = {n for n, d in after.items() if d.get('PTM_atom')}
    named = {n: d for n, d in after.items() if n not in flagged}
    info = {'n_block': len(blk), 'n_input': len(before), 'flagged': len(flagged), 'removed': len(truth['removed']), 'extras': len(truth['extras'])}
    # nothing of the input disappears
    lost = [n for n in before if n not in after]
    if lost:
        return ('input-atom-disappeared', {'atoms': [before[n]['atomname'] for n in lost]}), info
    # (a) unique canonical names, element preserving, bond preserving embedding
    names = [d.get('atomname') for d in named.values()]
    if len(set(names)) != len(names):
        dup = sorted({x for x in names if names.count(x) > 1})
        return ('names-not-unique', {'duplicates': dup}), info
    by_name = {d['atomname']: n for n, d in named.items()}
    for nm, n in by_name.items():
        if nm not in blk:
            return ('name-not-in-block', {'name': nm}), info
        if n in before and before[n]['element'] != blk.nodes[nm]['element']:
            return ('element-not-preserved', {'atom': n, 'input_element': before[n]['element'], 'named': nm}), info
    inv = {n: nm for nm, n in by_name.items()}
    for e in before_edges:
        u, v = tuple(e)
        if u in inv and v in inv and not blk.has_edge(inv[u], inv[v]):
            return ('bond-not-preserved', {'input_bond': [before[u]['atomname'], before[v]['atomname']], 'named_as': [inv[u], inv[v]]}), info
    # (b) completeness and bonding of the named part = block exactly (induced both ways)
    missing = [nm for nm in blk.nodes if nm not in by_name]
    if missing:
        return ('block-atom-missing-after-repair', {'missing': missing[:6]}), info
    after_edges = {frozenset((inv[u], inv[v])) for u, v in out.edges if u in inv and v in inv}
    block_edges = {frozenset(e) for e in blk.edges}
    if after_edges != block_edges:
        return ('bonds-differ-from-block', {'missing': [sorted(e) for e in list(block_edges - after_edges)[:5]],
                                            'extra': [sorted(e) for e in list(after_edges - block_edges)[:5]],
                                            'removed_atoms': truth['removed']}), info
    # (c) number of flagged atoms
    e, k = len(truth['extras']), len(truth['removed'])
    if e == 0:
        if flagged:
            return ('recognisable-atom-flagged', {'flagged_input_names': [before.get(n, {}).get('atomname') for n in flagged],
                                                  'scramble': case['scramble'], 'removed': truth['removed']}), info
    elif truth['foreign_extras']:
        if flagged != set(truth['extras']):
            return ('flags-differ-from-foreign-extras', {'flagged': sorted(flagged), 'extras': truth['extras']}), info
    elif k == 0:
        if len(flagged) != e:
            return ('flag-count', {'flagged': len(flagged), 'extras': e}), info
    else:
        if not (max(0, e - k) <= len(flagged) <= e):
            return ('flag-count-out-of-bounds', {'flagged': len(flagged), 'extras': e, 'removed': k}), info
    # flagged atoms keep their bonds and are input atoms
    for n in flagged:
        if n not in before:
            return ('flagged-atom-not-from-input', {'atom': n}), info
    return None, info


# ------------------------------------------------------------------ requested modifications
def gen_requested(rnd):
    ffn = rnd.choice(['charmm', 'charmm', 'amber', 'gromos'])
    ff = atomistic.native_ff(ffn)
    block = rnd.choice([a for a in atomistic.aa_names(ff) if a != 'PRO'])
    req = []
    if rnd.random() < 0.6:
        req.append(rnd.choice([m for m in ('N-ter', 'NH2-ter') if m in ff.modifications]))
    if rnd.random() < 0.6:
        req.append(rnd.choice([m for m in ('C-ter', 'COOH-ter') if m in ff.modifications]))
    side = [m for m in {'GLU': ['GLU-HE1', 'GLU-HE2'], 'ASP': ['ASP-HD1', 'ASP-HD2']}.get(block, []) if m in ff.modifications]
    if side and rnd.random() < 0.7:
        req.append(rnd.choice(side))
    if not req:
        req.append('C-ter')
    rnd.shuffle(req)
    # 'none' is what -nter none / -cter none put in the list: it asks for nothing, wherever it stands
    for _ in range(rnd.choice([0, 1, 1, 2])):
        req.insert(rnd.randint(0, len(req)), 'none')
    return {'ff': ffn, 'block': block, 'requests': req, 'present': rnd.choice(['absent', 'absent', 'canonical']),
            'drop_h': rnd.random() < 0.4, 'permute': rnd.random() < 0.5, 'seed': rnd.randrange(10 ** 6)}


def run_requested(case, requests):
    """Present the block (plus, optionally, the atoms of the requested modifications) with the request list on every atom; repair;
    -> (names -> count, bonds by name, flagged input names)"""
    import random
    from vermouth.molecule import Molecule
    from vermouth.processors.repair_graph import RepairGraph
    r = random.Random(case['seed'])
    ff = atomistic.native_ff(case['ff'])
    blk = ff.blocks[case['block']]
    atoms = [(nm, blk.nodes[nm]['element']) for nm in blk.nodes]
    bonds = [tuple(e) for e in blk.edges]
    if case['present'] == 'canonical':
        for mod in requests:
            if mod == 'none':
                continue
            g = ff.modifications[mod]
            nm_of = {n: d['atomname'] for n, d in g.nodes(data=True)}
            for n, d in g.nodes(data=True):
                if d.get('PTM_atom') and d['atomname'] not in [a for a, _ in atoms]:
                    atoms.append((d['atomname'], d.get('element', d['atomname'][0])))
            for u, v in g.edges:
                if g.nodes[u].get('PTM_atom') or g.nodes[v].get('PTM_atom'):
                    bonds.append((nm_of[u], nm_of[v]))
    if case['drop_h']:
        hs = [a for a, e in atoms if e == 'H' and a in blk]
        gone = set(r.sample(hs, min(len(hs), 2)))
        atoms = [(a, e) for a, e in atoms if a not in gone]
        bonds = [(u, v) for u, v in bonds if u not in gone and v not in gone]
    if case['permute']:
        r.shuffle(atoms)
    mol = Molecule(force_field=ff)
    key = {}
    for k, (a, e) in enumerate(atoms):
        key[a] = k
        mol.add_node(k, atomname=a, element=e, resname=case['block'], resid=1, chain='A', atomid=k + 1, modification=list(requests))
    for u, v in bonds:
        if u in key and v in key:
            mol.add_edge(key[u], key[v])
    out = util.shared(RepairGraph, include_graph=False).run_molecule(mol)
    names = {}
    for n, d in out.nodes(data=True):
        names[d.get('atomname')] = names.get(d.get('atomname'), 0) + 1
    edges = {frozenset((out.nodes[u].get('atomname'), out.nodes[v].get('atomname'))) for u, v in out.edges}
    flagged = sorted(str(d.get('atomname')) for n, d in out.nodes(data=True) if d.get('PTM_atom') and n in key.values())
    return names, edges, flagged


def check_requested(case, b):
    ff = atomistic.native_ff(case['ff'])
    blk = ff.blocks[case['block']]
    names, edges, flagged = run_requested(case, case['requests'])
    b.hits += 1
    want = set(blk.nodes)
    want_edges = {frozenset(e) for e in blk.edges}
    for mod in case['requests']:
        if mod == 'none':
            continue
        g = ff.modifications[mod]
        want |= {d['atomname'] for _, d in g.nodes(data=True) if d.get('PTM_atom')}
        want_edges |= {frozenset((g.nodes[u]['atomname'], g.nodes[v]['atomname'])) for u, v in g.edges
                       if g.nodes[u].get('PTM_atom') or g.nodes[v].get('PTM_atom')}
    got = set(names)
    if got != want or any(c != 1 for c in names.values()):
        return ('requested/atom-set', {'requests': case['requests'], 'missing': sorted(want - got), 'surplus': sorted(map(str, got - want)),
                                       'repeated': sorted(str(k) for k, c in names.items() if c != 1)})
    if not want_edges <= edges:
        return ('requested/bonds', {'requests': case['requests'], 'missing': [sorted(e) for e in want_edges - edges][:5]})
    # 'none' asks for nothing: the same presentation with the 'none' entries left out gives the same residue
    stripped = [m for m in case['requests'] if m != 'none']
    if stripped != case['requests']:
        n2, e2, f2 = run_requested(case, stripped)
        b.hits += 1
        if n2 != names or e2 != edges:
            return ('requested/none-entry-changes-result', {'requests': case['requests'], 'without_none': stripped,
                                                            'only_with_none': sorted(map(str, set(names) - set(n2))),
                                                            'only_without': sorted(map(str, set(n2) - set(names)))})
    return None


def cases(tier, seed):
    nb, per = (32, 30) if tier == 'quick' else (160, 250)
    return [{'seed': seed, 'batch': b, 'n': per, 'tier': tier} for b in range(nb)]


def run_case(params):
    rnd = harness.rng('C04', params['seed'], params['batch'])
    b = harness.Batch()
    limit = 10 if params['tier'] == 'quick' else 60
    for j in range(params['n']):
        b.total += 1
        if j % 5 == 4:
            rc = gen_requested(rnd)
            try:
                with harness.sub_alarm(limit):
                    p = check_requested(rc, b)
            except harness.CaseTimeout:
                b.inconclusive('watchdog')
                continue
            except Exception as e:
                if not harness.from_repo(e):
                    raise
                import traceback
                p = ('requested/exception/%s' % type(e).__name__, {'error': repr(e), 'trace': traceback.format_exc()[-800:]})
            if p:
                b.violation(p[0], 'residue repaired with requested modifications differs from the patched block (%s)' % p[0],
                            {'subcase': j, 'detail': p[1], 'case': rc})
            else:
                b.feat({'requested_modifications': 1, 'requests_with_none_entry': int('none' in rc['requests']),
                        'requests_none_first': int(rc['requests'][0] == 'none' and len(rc['requests']) > 1),
                        'modification_atoms_' + rc['present']: 1})
            continue
        case = gen(rnd, params['tier'])
        try:
            with harness.sub_alarm(limit):
                p, info = check(case, b)
        except harness.CaseTimeout:
            b.inconclusive('watchdog')
            b.feat('watchdog_scramble_' + case['scramble'])
            continue
        except Exception as e:
            import traceback
            tb = traceback.format_exc()
            p, info = ('exception/%s' % type(e).__name__, {'error': repr(e), 'trace': tb[-800:]}), {}
        if p:
            b.violation(p[0], 'repair result contradicts the by-construction ground truth (%s)' % p[0],
                        {'subcase': j, 'detail': p[1], 'info': info, 'case': case})
            continue
        b.feat({'cases': 1, 'neighbour_mutated_to_this_residue_type': int(case.get('mutate_neighbour') is not None), 'ff_' + case['ff']: 1, 'scramble_' + case['scramble']: 1, 'permuted': int(case['permute']),
                'with_missing': int(info['removed'] > 0), 'with_extras': int(info['extras'] > 0), 'in_peptide': int(bool(case['neighbours'])),
                'atoms_readded': info['removed'], 'atoms_flagged': info['flagged']})
        if (case['scramble'] != 'none' or case['permute']) and (info['removed'] or info['extras']):
            b.nontrivial(case, dict(case, observed=info))
    return b.result()
