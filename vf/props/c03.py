"""C03 - coordinates, molecule types and system topology agree atom for atom.

Events : the files produced in a scratch directory by write_pdb / write_gro / write_gmx_topology followed by
         DeferredFileWriter().write(); and by the real CLI (-x/-o) on multi-chain inputs.
Oracle : own PDB / GRO / TOP / ITP readers; (i) k-th coordinate record of molecule i = k-th [ atoms ] row of the ITP of its
         type, (ii) [ molecules ] = run-length encoding of the type sequence, (iii) every type included exactly once and
         its file exists, (iv) molecules sharing a type name give identical ITP text when written alone.
"""
import copy
import io
import os
import shutil
import subprocess
import sys
import tempfile

import numpy as np

from .. import harness, util
from ..oracles import itpread, pdbread

PROPERTY = 'C03'
LEVEL = 'exploration'
RULE = ('(a) library level: systems of 1-8 molecules built from 1-4 templates (2-12 atoms, sparse/shuffled keys, optional '
        'atomid permutation, bonds/angles/constraints); copies adjacent and interleaved (A B A); near-copies differing in '
        'exactly one of: a charge, a mass, an interaction parameter, an interaction meta, node order, atomid permutation, '
        'meta define, nrexcl, or only position/chain (must still share a type); NameMolType with and without '
        'deduplication; written with write_pdb, write_gro and write_gmx_topology. (b) the real CLI on homo-/hetero-'
        'oligomers assembled from test structures (copies translated / conformationally perturbed), with -elastic, '
        '-resid input, -sep, -merge. Non-trivial = >= 3 molecules, >= 2 sharing a name, not all adjacent. distinct = '
        'distinct system hashes / CLI scenarios. Also: near-copies with two keys swapped (same key set, same attributes position by position); residue numbers 0 and negative; CLI scenarios with two merged chain pairs whose chain identifiers sort differently (A+B, D+C); near-copies with surplus / missing trailing interactions, an integer field off by one on six-to-eight digit numbers, a charge or mass differing in the 6th-9th digit.')
ASSUMPTIONS = ['citation/header/comment text is ignored', 'molecules that differ only in position, chain, graph or '
               'mapping_weights may share a type', 'PDB fields are compared modulo the column truncation of the format']
MIN_HITS = {'quick': 600, 'thorough': 25000}
CASE_TIMEOUT = 1500
SHARD_TIMEOUT = {'quick': 900, 'thorough': 3400}


# ------------------------------------------------------------------ (a) library level
def gen_template(rnd, ti):
    n = rnd.randint(2, 12)
    keys = list(range(n))
    ks = rnd.choice(['zero', 'sparse', 'shuffled'])
    if ks == 'sparse':
        keys = sorted(rnd.sample(range(3 * n), n))
    elif ks == 'shuffled':
        keys = rnd.sample(range(2 * n), n)
    atoms = []
    resid = rnd.choice([1, 1, 1, 0, -1])       # residue number 0 and negative numbers are legal
    for i, k in enumerate(keys):
        if i and rnd.random() < 0.4:
            resid += 1
        atoms.append([k, {'atomname': rnd.choice(['BB', 'SC1', 'SC2', 'W', 'NA']), 'resname': rnd.choice(['ALA', 'LYS', 'W%d' % ti]), 'resid': resid,
                          'atype': rnd.choice(['P2', 'C1', 'Q5']), 'charge_group': i + 1, 'charge': rnd.choice([0.0, 1.0, -1.0]),
                          'mass': rnd.choice([72.0, 36.0])}])
    if rnd.random() < 0.4:
        perm = list(range(1, n + 1))
        rnd.shuffle(perm)
        for (k, a), p in zip(atoms, perm):
            a['atomid'] = p
        if rnd.random() < 0.35:
            # only some atoms carry an atom id (particles added after a structure was read have none)
            for k, a in rnd.sample(atoms, rnd.randint(1, max(1, n // 2))):
                a.pop('atomid', None)
    inter = []
    for _ in range(rnd.randint(0, 6)):
        t = rnd.choice(['bonds', 'bonds', 'angles', 'constraints'])
        ar = {'bonds': 2, 'angles': 3, 'constraints': 2}[t]
        if n < ar:
            continue
        inter.append([t, rnd.sample(keys, ar), [rnd.choice(['1', '2']), rnd.choice(['0.47', '0.33', '120']), rnd.choice(['1250', '25'])],
                      {'version': 1} if rnd.random() < 0.1 else {}])
    big = rnd.random() < 0.25
    if big:
        # residue numbers / charge groups of six digits and more (a solvent molecule deep into a large system; -resid input)
        off = rnd.choice([100000, 100000, 250000, 10 ** 6, 3 * 10 ** 7])
        cgoff = rnd.choice([0, off])
        for k, a in atoms:
            a['resid'] += off
            a['charge_group'] += cgoff
    return {'atoms': atoms, 'inter': inter, 'nrexcl': 1, 'define': {}, 'tpl': ti, 'big': big}


def near_copy(rnd, tpl):
    m = copy.deepcopy(tpl)
    kind = rnd.choice(['exact', 'exact', 'position-only', 'charge', 'mass', 'param', 'meta', 'node-order', 'key-swap', 'key-swap', 'atomid', 'define', 'nrexcl', 'param-eps', 'param-eps', 'inter-surplus', 'inter-surplus', 'inter-short', 'inter-order',
                       'int-plus-one', 'int-plus-one', 'float-eps'])
    if kind == 'charge':
        a = rnd.choice(m['atoms'])[1]
        a['charge'] = a['charge'] + 0.5
    elif kind == 'mass':
        a = rnd.choice(m['atoms'])[1]
        a['mass'] = a['mass'] + 1.0
    elif kind == 'param' and m['inter']:
        rnd.choice(m['inter'])[2][2] = '999'
    elif kind == 'param-eps' and m['inter']:
        # a numeric parameter that differs in the 7th significant digit (float force constants of two nearly identical
        # conformations): a different topology all the same
        it = rnd.choice(m['inter'])
        it[2][1] = float(it[2][1]) * (1 + rnd.choice([1e-7, -3e-7, 2e-6]))
    elif kind == 'meta' and m['inter']:
        rnd.choice(m['inter'])[3]['ifdef'] = 'FLEX'
    elif kind == 'int-plus-one':
        # an integer field (residue number, charge group) that differs by one; the template may carry large numbers (m['big'])
        a = rnd.choice(m['atoms'])[1]
        f = rnd.choice([f_ for f_ in ('resid', 'charge_group') if a[f_] >= 100000] or ['resid', 'charge_group'])
        a[f] = a[f] + 1
    elif kind == 'float-eps':
        # a charge or mass that differs in the 6th-9th significant digit: another number in the written file
        a = rnd.choice(m['atoms'])[1]
        f = rnd.choice(['charge', 'mass'])
        a[f] = a[f] * (1 + rnd.choice([1e-6, -2e-6, 4e-5, 1e-4])) + rnd.choice([0, 0, 1e-9, 1e-7])
    elif kind == 'inter-surplus' and m['inter']:
        # the lists agree position by position, but this molecule has more entries at the end of a list that exists in both
        # (one rubber band more in a nearly identical conformation)
        t = rnd.choice(m['inter'])[0]
        ar = {'bonds': 2, 'angles': 3, 'constraints': 2}[t]
        for _ in range(rnd.randint(1, 2)):
            m['inter'].append([t, rnd.sample([k for k, a in m['atoms']], ar), ['1', rnd.choice(['0.51', '0.29']), '700'], {}])
    elif kind == 'inter-short' and m['inter']:
        # ... or fewer: the last entry of a list with at least two entries is missing
        types = [it[0] for it in m['inter']]
        multi = [t for t in set(types) if types.count(t) >= 2]
        if multi:
            t = rnd.choice(sorted(multi))
            last = max(i for i, it in enumerate(m['inter']) if it[0] == t)
            del m['inter'][last]
        else:
            kind = 'exact'
    elif kind == 'inter-order' and len(m['inter']) > 1:
        # the same interactions listed in another order: the written files differ in line order only; sharing or not sharing are
        # both fine as long as what is written under a shared name is the same set
        rnd.shuffle(m['inter'])
    elif kind == 'node-order' and len(m['atoms']) > 1:
        i, j = rnd.sample(range(len(m['atoms'])), 2)
        m['atoms'][i], m['atoms'][j] = m['atoms'][j], m['atoms'][i]
    elif kind == 'key-swap' and len(m['atoms']) > 1:
        # same key set, same attributes position by position, same interaction tuples - but two atoms carry each other's key, so
        # the tuples connect other atoms; prefer atoms that take part in interactions
        used = [i for i, (k, a) in enumerate(m['atoms']) if any(k in it[1] for it in m['inter'])]
        pool = used if len(used) >= 2 and rnd.random() < 0.8 else range(len(m['atoms']))
        i, j = rnd.sample(list(pool), 2)
        m['atoms'][i][0], m['atoms'][j][0] = m['atoms'][j][0], m['atoms'][i][0]
    elif kind == 'atomid' and len(m['atoms']) > 1:
        perm = list(range(1, len(m['atoms']) + 1))
        rnd.shuffle(perm)
        for (k, a), p in zip(m['atoms'], perm):
            a['atomid'] = p
    elif kind == 'define':
        m['define'] = {'POSRES_FC': 500}
    elif kind == 'nrexcl':
        m['nrexcl'] = 2
    else:
        kind = 'exact' if kind == 'exact' else 'position-only'
    m['variant'] = kind
    return m


def gen_system(rnd):
    ntpl = rnd.randint(1, 4)
    tpls = [gen_template(rnd, i) for i in range(ntpl)]
    mols = []
    for _ in range(rnd.randint(1, 8)):
        t = rnd.choice(tpls)
        mols.append(near_copy(rnd, t) if rnd.random() < 0.8 else copy.deepcopy(dict(t, variant='exact')))
    for i, m in enumerate(mols):
        m['chain'] = rnd.choice('ABC')
        m['shift'] = [i * 3.0, rnd.uniform(0, 2), rnd.uniform(0, 2)]
    return {'mols': mols, 'dedup': rnd.random() < 0.75,
            'npint': rnd.random() < (0.6 if any(t.get('big') for t in tpls) else 0.15)}


def build(case):
    from vermouth.forcefield import ForceField
    from vermouth.molecule import Molecule
    from vermouth.system import System
    ff = ForceField(name='verif_c03')
    system = System(force_field=ff)
    system.meta['header'] = ['generated by the C03 check']   # the topology writer expects the header the CLI always sets
    for m in case['mols']:
        mol = Molecule(force_field=ff, nrexcl=m['nrexcl'])
        for i, (k, a) in enumerate(m['atoms']):
            if case.get('npint'):
                # integer attributes held as numpy integers (a system built from arrays): still identifiers, compared exactly
                a = {kk: (np.int64(vv) if isinstance(vv, int) and not isinstance(vv, bool) else vv) for kk, vv in a.items()}
            mol.add_node(k, chain=m['chain'], position=np.array([m['shift'][0] + 0.1 * i, m['shift'][1], m['shift'][2]]), **a)
        for t, atoms, params, meta in m['inter']:
            mol.add_interaction(t, atoms, list(params), meta=dict(meta))
            if t in ('bonds', 'constraints'):
                mol.add_edge(*atoms)
        if m['define']:
            mol.meta['define'] = dict(m['define'])
        system.add_molecule(mol)
    return system


def itp_alone(mol, name):
    from vermouth.gmx.itp import write_molecule_itp
    buf = io.StringIO()
    write_molecule_itp(mol, buf, moltype=name)
    return '\n'.join(l for l in buf.getvalue().split('\n') if not l.startswith(';'))


def only_floats_within_tolerance(txt, t0):
    """True iff the two ITP texts differ only in charge / mass fields of [ atoms ] rows, and every differing pair of numbers is
    equal under numpy.isclose's default tolerances (|a - b| <= 1e-8 + 1e-5 |b|, either way round)."""
    la, lb = txt.split('\n'), t0.split('\n')
    if len(la) != len(lb):
        return False
    section = None
    seen = False
    for x, y in zip(la, lb):
        if x.strip().startswith('['):
            section = x.strip().strip('[] ')
        if x == y:
            continue
        tx, ty = x.split(), y.split()
        if section != 'atoms' or len(tx) != len(ty):
            return False
        for c, (u, v) in enumerate(zip(tx, ty)):
            if u == v:
                continue
            if c not in (6, 7):
                return False
            try:
                fu, fv = float(u), float(v)
            except ValueError:
                return False
            d = abs(fu - fv)
            if not (d <= 1e-8 + 1e-5 * abs(fv) or d <= 1e-8 + 1e-5 * abs(fu)):
                return False
            seen = True
    return seen


def check_files(workdir, molecule_sizes_hint=None, top='topol.top', pdb='out.pdb', gro=None):
    """Cross-file agreement on the files found in workdir. -> (problem | None, info)"""
    with open(os.path.join(workdir, top)) as f:
        toptext = f.read()
    t = itpread.parse(toptext)
    listed = t['molecules']
    includes = [p for p, g in t['includes'] if p != 'martini.itp']
    info = {'molecules_listed': listed, 'includes': includes}
    names = [n for n, _ in listed]
    for n in set(names):
        c = sum(1 for p in includes if p == n + '.itp')
        if c != 1:
            return ('top/include-count', {'moltype': n, 'times_included': c, 'includes': includes, 'molecules': listed}), info
        if not os.path.exists(os.path.join(workdir, n + '.itp')):
            return ('top/include-missing-file', {'moltype': n}), info
    itps = {}
    for n in set(names):
        with open(os.path.join(workdir, n + '.itp')) as f:
            p = itpread.parse(f.read())
        if len(p['moleculetypes']) != 1 or p['moleculetypes'][0]['name'] != n:
            return ('itp/moleculetype', {'file': n + '.itp', 'found': [m['name'] for m in p['moleculetypes']]}), info
        itps[n] = [itpread.atom_row(r) for r in p['moleculetypes'][0]['atoms']]
    with open(os.path.join(workdir, pdb)) as f:
        pdbp = pdbread.read_pdb_text(f.read())
    seq = [n for n, c in listed for _ in range(c)]
    if len(pdbp['molecules']) != len(seq):
        return ('pdb/molecule-count', {'pdb_molecules': len(pdbp['molecules']), 'top_molecules': len(seq)}), info
    for mi, (idxs, n) in enumerate(zip(pdbp['molecules'], seq)):
        rows = itps[n]
        if len(idxs) != len(rows):
            return ('pdb-vs-itp/atom-count', {'molecule': mi, 'moltype': n, 'pdb': len(idxs), 'itp': len(rows)}), info
        for k, (ai, row) in enumerate(zip(idxs, rows)):
            a = pdbp['atoms'][ai]
            if a['name'] != row['atom'][:4] or a['resname'] != row['residue'][:3 if len(row['residue']) > 3 else 4][:4] and a['resname'] != row['residue'][:3] \
                    or a['resid'] != int(str(int(row['resnr']))[-4:]):
                return ('pdb-vs-itp/record', {'molecule': mi, 'moltype': n, 'k': k, 'pdb': [a['name'], a['resname'], a['resid']],
                                              'itp': [row['atom'], row['residue'], row['resnr']]}), info
    if gro:
        with open(os.path.join(workdir, gro)) as f:
            g = pdbread.read_gro_text(f.read())
        flat = [(n, row) for n in seq for row in itps[n]]
        if len(g['atoms']) != len(flat):
            return ('gro-vs-itp/atom-count', {'gro': len(g['atoms']), 'itp': len(flat)}), info
        for k, (a, (n, row)) in enumerate(zip(g['atoms'], flat)):
            if a['name'] != row['atom'][:5] or a['resname'] != row['residue'][:5] or a['resid'] != int(str(int(row['resnr']))[-5:]):
                return ('gro-vs-itp/record', {'k': k, 'moltype': n, 'gro': [a['name'], a['resname'], a['resid']],
                                              'itp': [row['atom'], row['residue'], row['resnr']]}), info
    return None, info


def check_library(case, b):
    from vermouth.file_writer import DeferredFileWriter
    from vermouth.gmx.gro import write_gro
    from vermouth.gmx.topology import write_gmx_topology
    from vermouth.pdb import write_pdb
    from vermouth.processors.name_moltype import NameMolType
    system = build(case)
    p1, names = verify_system(system, case, b)
    if p1 and p1[0] != 'moltype/shared-name-floats-within-isclose-tolerance':
        return p1, names
    if int(harness.h([names, len(case['mols']), 'again']), 16) % 3 == 0:
        # the same molecule objects written a second time after their atom ids changed (node order untouched): molecules that used to
        # differ may now be alike and the other way round; names and files must follow the molecules as they are now
        import random
        r_ = random.Random(int(harness.h([names, 'ids']), 16))
        mode = r_.choice(['ascending', 'descending', 'drop', 'shuffle'])
        for mol in system.molecules:
            keys = list(mol.nodes)
            ids = list(range(1, len(keys) + 1))
            if mode == 'descending':
                ids.reverse()
            elif mode == 'shuffle':
                r_.shuffle(ids)
            for k, i in zip(keys, ids):
                if mode == 'drop':
                    mol.nodes[k].pop('atomid', None)
                else:
                    mol.nodes[k]['atomid'] = i
            mol.meta.pop('moltype', None)
        b.feat('second_write_after_atomid_change')
        p2, names2 = verify_system(system, case, b)
        if p2:
            return ('rewrite/' + p2[0], dict(p2[1], atomids=mode)) if p2[0] != 'moltype/shared-name-floats-within-isclose-tolerance' else p2, names2
    return p1, names


def verify_system(system, case, b):
    from vermouth.file_writer import DeferredFileWriter
    from vermouth.gmx.gro import write_gro
    from vermouth.gmx.topology import write_gmx_topology
    from vermouth.pdb import write_pdb
    from vermouth.processors.name_moltype import NameMolType
    util.shared(NameMolType, deduplicate=case['dedup']).run_system(system)
    names = [m.meta['moltype'] for m in system.molecules]
    b.hits += 1
    # (iv) same name => identical topology text when written alone
    first = {}
    soft = None
    for i, (m, n) in enumerate(zip(system.molecules, names)):
        txt = itp_alone(m, n)
        if n in first:
            j, t0 = first[n]
            if txt != t0:
                if only_floats_within_tolerance(txt, t0):
                    # known finding: the comparison that decides on sharing a name uses numpy.isclose for floats
                    soft = soft or ('moltype/shared-name-floats-within-isclose-tolerance',
                                    {'molecules': [j, i], 'moltype': n, 'variant': case['mols'][i].get('variant'),
                                     'diff': [l for l in txt.split('\n') if l not in t0.split('\n')][:4]})
                    continue        # recorded; everything else is still checked on this system
                return ('moltype/shared-name-different-topology',
                        {'molecules': [j, i], 'moltype': n, 'variant': case['mols'][i].get('variant'),
                         'diff': [l for l in txt.split('\n') if l not in t0.split('\n')][:4]}), names
        else:
            first[n] = (i, txt)
    work = tempfile.mkdtemp(prefix='c03-')
    cwd = os.getcwd()
    try:
        os.chdir(work)
        try:
            write_pdb(system, 'out.pdb')
            write_gro(system, 'out.gro', box=(10, 10, 10))
            write_gmx_topology(system, 'topol.top', itp_paths=[])
            DeferredFileWriter().write()
        except Exception as e:
            import traceback
            try:
                DeferredFileWriter().close()
            except Exception:
                pass
            return ('exception/%s' % type(e).__name__, {'error': repr(e), 'trace': traceback.format_exc()[-600:]}), names
        os.chdir(cwd)
        p, info = check_files(work, gro='out.gro')
        if p:
            return p, names
        # (ii) run-length encoding of the name sequence
        rle = []
        for n in names:
            if rle and rle[-1][0] == n:
                rle[-1][1] += 1
            else:
                rle.append([n, 1])
        if [list(x) for x in info['molecules_listed']] != rle:
            return ('top/molecules-section', {'observed': info['molecules_listed'], 'expected': rle}), names
    finally:
        os.chdir(cwd)
        shutil.rmtree(work, ignore_errors=True)
    return soft, names


# ------------------------------------------------------------------ (b) CLI scenarios
def make_oligomer(src, out, copies, rnd, perturb):
    """Write a PDB with `copies` chains made from the first chain of `src`: translated; optionally with a conformational
    perturbation (a smooth bend) so that copies differ in geometry; optionally renumbered."""
    with open(src) as f:
        parsed = pdbread.read_pdb_text(f.read())
    atoms = [parsed['atoms'][i] for i in parsed['molecules'][0]]
    lines = []
    serial = 1
    for c in range(copies):
        chain = 'ABCDEFGH'[c]
        shift = 45.0 * c
        zs = [a['z'] for a in atoms]
        zmin, zmax = min(zs), max(zs)
        for a in atoms:
            x, y, z = a['x'] + shift, a['y'], a['z']
            if perturb and c > 0:
                f_ = (z - zmin) / max(1e-9, zmax - zmin)
                x += perturb * c * 6.0 * f_ * f_
            resid = a['resid'] + (100 * c if rnd is not None and rnd.get('renumber') else 0)
            el = a['element'] or a['name'][0]
            name = a['name'] if len(a['name']) == 4 else ' ' + a['name']
            lines.append('ATOM  %5d %-4s %-3s %1s%4d    %8.3f%8.3f%8.3f  1.00  0.00          %2s' %
                         (serial % 100000, name, a['resname'][:3], chain, resid, x, y, z, el))
            serial += 1
        lines.append('TER')
    lines.append('END')
    with open(out, 'w') as f:
        f.write('\n'.join(lines) + '\n')


_P1 = 'integration_tests/tier-0/mini-protein1_betasheet/aa.pdb'
_P2 = 'integration_tests/tier-0/mini-protein2_helix/aa.pdb'
CLI_SCENARIOS = [
    # two copies of a two-chain molecule whose chain identifiers sort differently (A+B, D+C): the final atom sorting is by chain
    {'name': 'merged-pairs-chain-order-AB-DC', 'chains': [[_P1, 'A'], [_P2, 'B'], [_P1, 'D'], [_P2, 'C']],
     'flags': ['-merge', 'A,B', '-merge', 'D,C', '-ff', 'martini3001']},
    {'name': 'homodimer-elastic-perturbed', 'src': 'integration_tests/tier-0/mini-protein1_betasheet/aa.pdb', 'copies': 2, 'perturb': 1.0,
     'flags': ['-elastic', '-ff', 'martini22']},
    {'name': 'homotrimer-elastic-identical', 'src': 'integration_tests/tier-0/mini-protein2_helix/aa.pdb', 'copies': 3, 'perturb': 0.0,
     'flags': ['-elastic', '-ff', 'martini3001']},
    {'name': 'homodimer-resid-input-renumbered', 'src': 'integration_tests/tier-0/mini-protein3_trp-cage/aa.pdb', 'copies': 2, 'perturb': 0.0,
     'renumber': True, 'flags': ['-resid', 'input', '-ff', 'martini3001']},
    {'name': 'homodimer-sep', 'src': 'integration_tests/tier-0/mini-protein1_betasheet/aa.pdb', 'copies': 2, 'perturb': 0.0,
     'flags': ['-sep', '-ff', 'martini22']},
    {'name': 'homodimer-merge-elastic', 'src': 'integration_tests/tier-0/mini-protein2_helix/aa.pdb', 'copies': 2, 'perturb': 1.0,
     'flags': ['-merge', 'A,B', '-elastic', '-ff', 'martini3001']},
    {'name': 'homotrimer-elastic-perturbed-noscfix', 'src': 'integration_tests/tier-0/mini-protein2_helix/aa.pdb', 'copies': 3, 'perturb': 0.7,
     'flags': ['-elastic', '-ff', 'martini3001', '-noscfix']},
    {'name': 'homodimer-posres-perturbed', 'src': 'integration_tests/tier-0/mini-protein3_trp-cage/aa.pdb', 'copies': 2, 'perturb': 1.0,
     'flags': ['-p', 'backbone', '-ff', 'martini3001']},
    {'name': 'homodimer-elastic-chain-unit', 'src': 'integration_tests/tier-0/mini-protein1_betasheet/aa.pdb', 'copies': 2, 'perturb': 0.5,
     'flags': ['-elastic', '-eunit', 'chain', '-ff', 'elnedyn22']},
    {'name': 'merged-pairs-chain-order-BA-CD-elastic', 'chains': [[_P2, 'B'], [_P1, 'A'], [_P2, 'C'], [_P1, 'D']],
     'flags': ['-merge', 'A,B', '-merge', 'C,D', '-ff', 'martini22', '-elastic', '-resid', 'input']},
    {'name': 'heterodimer-elastic', 'src': 'integration_tests/tier-0/mini-protein1_betasheet/aa.pdb', 'copies': 1, 'perturb': 0.0,
     'second': 'integration_tests/tier-0/mini-protein2_helix/aa.pdb', 'flags': ['-elastic', '-ff', 'martini3001']},
]


def make_multichain(specs, out, work):
    """specs: [(source file, chain letter)] in file order; each chain is the first chain of its source, shifted along x."""
    lines = []
    tmp = os.path.join(work, 'one.pdb')
    for i, (src, chain) in enumerate(specs):
        make_oligomer(util.test_data_path(src), tmp, 1, None, 0.0)
        with open(tmp) as f:
            for l in f.read().split('\n'):
                if l.startswith('ATOM'):
                    lines.append(l[:21] + chain + l[22:30] + '%8.3f' % (float(l[30:38]) + 50.0 * i) + l[38:])
                elif l.startswith('TER'):
                    lines.append(l)
    with open(out, 'w') as f:
        f.write('\n'.join(lines) + '\nEND\n')


def check_cli(sc, b):
    work = tempfile.mkdtemp(prefix='c03cli-')
    try:
        inp = os.path.join(work, 'in.pdb')
        if sc.get('chains'):
            make_multichain(sc['chains'], inp, work)
        else:
            make_oligomer(util.test_data_path(sc['src']), inp, sc['copies'], sc, sc['perturb'])
        if sc.get('second'):
            with open(inp) as f:
                first = f.read().replace('END\n', '')
            second = os.path.join(work, 'second.pdb')
            make_oligomer(util.test_data_path(sc['second']), second, 1, None, 0.0)
            with open(second) as f:
                txt = f.read()
            txt = '\n'.join((l[:21] + 'B' + l[22:30] + '%8.3f' % (float(l[30:38]) + 60) + l[38:]) if l.startswith('ATOM') else l for l in txt.split('\n'))
            with open(inp, 'w') as f:
                f.write(first + txt)
        env = dict(os.environ, PYTHONPATH=util.REPO)
        cmd = [sys.executable, os.path.join(util.REPO, 'bin', 'martinize2'), '-f', 'in.pdb', '-x', 'out.pdb', '-o', 'topol.top',
               '-ignh', '-maxwarn', '100'] + sc['flags']
        r = subprocess.run(cmd, cwd=work, env=env, capture_output=True, text=True, timeout=600)
        b.hits += 1
        if r.returncode != 0:
            return 'cli-failed', {'returncode': r.returncode, 'stderr': r.stderr[-800:]}
        p, info = check_files(work)
        if p:
            return p, info
        # (iv) through the CLI: molecules sharing a type must have identical topologies. The CLI wrote one ITP per name;
        # re-run with -sep (one ITP per molecule) and compare the separately written topologies of same-named molecules.
        names = [n for n, c in info['molecules_listed'] for _ in range(c)]
        if len(set(names)) < len(names) and '-sep' not in sc['flags']:
            sep = os.path.join(work, 'sep')
            os.mkdir(sep)
            shutil.copy(inp, os.path.join(sep, 'in.pdb'))
            r2 = subprocess.run(cmd + ['-sep'], cwd=sep, env=env, capture_output=True, text=True, timeout=600)
            b.hits += 1
            if r2.returncode != 0:
                return 'cli-failed', {'returncode': r2.returncode, 'stderr': r2.stderr[-800:], 'run': 'sep'}
            with open(os.path.join(sep, 'topol.top')) as f:
                t2 = itpread.parse(f.read())
            names2 = [n for n, c in t2['molecules'] for _ in range(c)]
            if len(names2) != len(names):
                return ('cli/molecule-count-differs-with-sep', {'dedup': names, 'sep': names2}), info
            texts = []
            for n in names2:
                with open(os.path.join(sep, n + '.itp')) as f:
                    p2 = itpread.parse(f.read())
                mt = p2['moleculetypes'][0]
                texts.append((mt['atoms'], {s: sorted((tuple(t), g) for t, g, _ in lst) for s, lst in mt['sections'].items()}))
            seen = {}
            for i, n in enumerate(names):
                if n in seen and texts[seen[n]] != texts[i]:
                    a, c = texts[seen[n]], texts[i]
                    diff = {s: [len(a[1].get(s, [])), len(c[1].get(s, []))] for s in set(a[1]) | set(c[1]) if a[1].get(s) != c[1].get(s)}
                    return ('moltype/shared-name-different-topology', {'scenario': sc['name'], 'molecules': [seen[n], i], 'moltype': n,
                                                                       'atoms_equal': a[0] == c[0], 'sections_differing(n_first,n_second)': diff}), info
                seen.setdefault(n, i)
        return None, info
    finally:
        shutil.rmtree(work, ignore_errors=True)


def cases(tier, seed):
    nb, per = (24, 25) if tier == 'quick' else (120, 220)
    out = [{'kind': 'library', 'seed': seed, 'batch': b, 'n': per} for b in range(nb)]
    scen = CLI_SCENARIOS if tier == 'thorough' else CLI_SCENARIOS[:8]
    out += [{'kind': 'cli', 'scenario': i} for i in range(len(scen))]
    return out


def run_case(params):
    b = harness.Batch()
    if params['kind'] == 'cli':
        sc = CLI_SCENARIOS[params['scenario']]
        b.total += 1
        p, info = check_cli(sc, b)
        if p == 'cli-failed':
            b.inconclusive('cli-run-failed')
            b.feat('cli_failed_' + sc['name'])
            rec = b.result()
            rec['why_detail'] = info
            return rec
        if p:
            b.violation(p[0], 'written files disagree (%s)' % p[0], {'scenario': sc, 'detail': p[1], 'info': info})
        else:
            b.feat('cli_scenarios_held')
            b.nontrivial(sc['name'], {'cli_scenario': sc, 'observed': info})
        return b.result()
    rnd = harness.rng('C03', params['seed'], params['batch'])
    for j in range(params['n']):
        b.total += 1
        case = gen_system(rnd)
        p, names = check_library(case, b)
        desc = {'templates': [m['tpl'] for m in case['mols']], 'variants': [m.get('variant') for m in case['mols']], 'dedup': case['dedup'],
                'names': names}
        if p:
            key = p[0]
            b.violation(key, 'written files disagree (%s)' % key, {'subcase': j, 'detail': p[1], 'desc': desc,
                                                                     'case': case if sum(len(m['atoms']) for m in case['mols']) < 50 else 'large'})
            continue
        shared = len(set(names)) < len(names)
        interleaved = any(names[i] != names[i + 1] and names[i] in names[i + 2:] for i in range(len(names) - 1))
        b.feat({'systems': 1, 'with_shared_names': int(shared), 'interleaved_same_name': int(interleaved), 'dedup_on': int(case['dedup'])})
        if len(names) >= 3 and shared and interleaved:
            b.nontrivial(desc, desc)
    return b.result()
