"""C05 - links are applied at exactly the places where they fit.

Events : every dict yielded by match_link(molecule, link) (generator wrapped from the harness) and the molecule's
         interaction table / node set before and after DoLinks.run_molecule.
Oracle : (1) independent placement enumerator (node attributes incl. Choice / NotDefinedOrNot, modifications rule,
         induced edges, order slots through a table transcribed from the documented matrix, non-edges, patterns,
         molecule meta) evaluated on the state of the molecule when the link starts; (2) reference link interpreter
         producing the expected final interaction table (attribute replacement, removals, add-or-replace by
         (type, atoms, version), geometry effectors by textbook formulas, node deletion).
"""
import itertools
import math

import numpy as np

from .. import harness, util

PROPERTY = 'C05'
LEVEL = 'exploration'
RULE = ('(a) coarse-grained molecules produced by the real upstream pipeline (charmm peptides of 2-9 residues with '
        'terminal modifications -> RepairGraph -> CanonicalizeModifications -> DoMapping -> DoAverageBead) for the target '
        'force fields martini3001, martini22, martini22p, martini30b32, martini3IDP, elnedyn21/22/22p, then made hostile: '
        'random secondary-structure labels per residue, residue numbers with gaps / offsets / a decreasing run, extra '
        'cross-links (disulfide-like and backbone), random scfix/extdih/idr meta; all links of the force field applied '
        'by the real DoLinks. (b) synthetic ordered link lists rendered as .ff text and parsed by read_ff over toy '
        'blocks: +/- and >/</* prefixes, explicit order, Choice values, edges, non-edges, patterns, molmeta, replace, '
        'removals, versions, geometry parameters, later links overriding earlier ones. Non-trivial = >= 1 link with >= 2 '
        'placements and >= 1 link whose node-attribute-only candidates were all rejected by order/edges/non-edges/'
        'patterns. distinct = distinct (force field, molecule) hashes. Also: links with one to three non-edges towards next/previous/own residue, links with three different order prefixes (at least one symbolic), molecules with branched inter-residue bonds registered before or after the main-chain bond.')
ASSUMPTIONS = ['a link never matches on an attribute it replaces itself (order of effects inside one link is unspecified)',
               'two templates of one link landing on the same atoms and version are ambiguous and not generated',
               'numeric parameters compared after rounding to 6 decimals; list order of interactions is not compared']
MIN_HITS = {'quick': 4000, 'thorough': 100000}
CASE_TIMEOUT = 1700
SHARD_TIMEOUT = {'quick': 900, 'thorough': 3400}

CG_FFS = ['martini3001', 'martini22', 'martini22p', 'martini30b32', 'martini3IDP', 'elnedyn21', 'elnedyn22', 'elnedyn22p']
_S = {}


def setup():
    if 'ffs' not in _S:
        from pathlib import Path
        from vermouth.forcefield import find_force_fields
        from vermouth.graph_utils import add_element_attr
        from vermouth.map_input import combine_mappings, generate_all_self_mappings, read_mapping_directory
        ffs = find_force_fields(Path(util.data_path('force_fields')))
        for blk in ffs['charmm'].blocks.values():
            try:
                add_element_attr(blk)
            except ValueError:
                pass
        maps = read_mapping_directory(util.data_path('mappings'), ffs)
        _S['ffs'], _S['maps'] = ffs, maps
    return _S['ffs'], _S['maps']


# ------------------------------------------------------------------ independent oracle
def val_match(attrs, key, want):
    cls = type(want).__name__
    if cls == 'Choice':
        return attrs.get(key) in want.value
    if cls == 'NotDefinedOrNot':
        return key not in attrs or attrs[key] != want.value
    return attrs.get(key) == want


def mods_ok(mol_attrs, link_attrs):
    if 'modifications' not in link_attrs:
        return True
    names = []
    for m in mol_attrs.get('modifications', []):
        names.extend(m.name)
    want = link_attrs['modifications']
    if not want and not names:
        return True
    if want and names:
        if isinstance(want, list):
            return sorted(names) == sorted(want)
        return all(val_match({'_': n}, '_', want) for n in names)
    return False


def node_ok(mol_attrs, link_attrs):
    if not mods_ok(mol_attrs, link_attrs):
        return False
    for k, v in link_attrs.items():
        if k in ('order', 'replace', 'modifications'):
            continue
        if not val_match(mol_attrs, k, v):
            return False
    return True


def order_kind(o):
    if isinstance(o, (int, float)) and not isinstance(o, bool):
        return ('n', int(o))
    ch = o[0]
    if ch == '>':
        return ('gl', len(o))
    if ch == '<':
        return ('gl', -len(o))
    return ('*', len(o))


def sgn(x):
    return (x > 0) - (x < 0)


def order_pair_ok(o1, r1, o2, r2):
    """Transcribed from the documented comparison matrix ('!' cells are unconstrained)."""
    (k1, v1), (k2, v2) = order_kind(o1), order_kind(o2)
    if k1 == 'n' and k2 == 'n':
        return (v2 - v1) == (r2 - r1)
    if k1 == 'n' and v1 == 0 and k2 == 'gl':
        return sgn(r2 - r1) == sgn(v2)
    if k2 == 'n' and v2 == 0 and k1 == 'gl':
        return sgn(r1 - r2) == sgn(v1)
    if k1 == 'gl' and k2 == 'gl':
        return sgn(r2 - r1) == sgn(v2 - v1)
    if k1 == 'n' and v1 == 0 and k2 == '*':
        return r1 != r2
    if k2 == 'n' and v2 == 0 and k1 == '*':
        return r1 != r2
    if k1 == '*' and k2 == '*':
        return (v1 == v2) == (r1 == r2)
    return True


def oracle_placements(mol, link, stats=None):
    for k, v in link.molecule_meta.items():
        if not val_match(mol.meta, k, v):
            return []
    lnodes = list(link.nodes)
    cands = {ln: [mn for mn in mol.nodes if node_ok(mol.nodes[mn], link.nodes[ln])] for ln in lnodes}
    if stats is not None and all(cands.values()):
        stats['attr_candidates'] = True
    lnodes.sort(key=lambda ln: len(cands[ln]))
    raw = []
    assign = {}
    used = set()

    def rec(i):
        if i == len(lnodes):
            raw.append(dict(assign))
            return
        ln = lnodes[i]
        for mn in cands[ln]:
            if mn in used:
                continue
            if any(link.has_edge(ln, l2) != mol.has_edge(mn, m2) for l2, m2 in assign.items()):
                continue
            assign[ln] = mn
            used.add(mn)
            rec(i + 1)
            del assign[ln]
            used.discard(mn)
    rec(0)
    res = []
    for a in raw:
        slot = {}
        good = True
        for ln, mn in a.items():
            o = link.nodes[ln].get('order')
            if o is None:
                continue
            r = mol.nodes[mn]['resid']
            if slot.setdefault(o, r) != r:
                good = False
                break
        if good:
            for (o1, r1), (o2, r2) in itertools.combinations(slot.items(), 2):
                if not order_pair_ok(o1, r1, o2, r2):
                    good = False
                    break
        if not good:
            continue
        for frm, attrs in link.non_edges:
            if frm not in a:
                continue
            mn = a[frm]
            r = mol.nodes[mn]['resid']
            for nb in mol.neighbors(mn):
                if mol.nodes[nb]['resid'] == r + attrs.get('order', 0) and node_ok(mol.nodes[nb], attrs):
                    good = False
        if not good:
            continue
        if link.patterns:
            if not any(all(node_ok(mol.nodes[a[k]], t) for k, t in pat) for pat in link.patterns):
                continue
        res.append(a)
    return res


def geom(eff, mol, match_):
    name = type(eff).__name__
    pos = [np.asarray(mol.nodes[match_[k]]['position'], float) for k in eff.keys]
    if name == 'ParamDistance':
        val = math.dist(pos[0], pos[1])
    elif name == 'ParamAngle':
        a = pos[0] - pos[1]
        c = pos[2] - pos[1]
        val = math.degrees(math.acos(max(-1.0, min(1.0, float(np.dot(a, c) / np.linalg.norm(a) / np.linalg.norm(c))))))
    else:
        # IUPAC / Blondel-Karplus (1996) convention: F = ri - rj, G = rj - rk, H = rl - rk, A = F x G, B = H x G,
        # cos(phi) = A.B / |A||B|, sin(phi) = (B x A).G / |A||B||G|
        F = pos[0] - pos[1]
        G = pos[1] - pos[2]
        H = pos[3] - pos[2]
        A = np.cross(F, G)
        B = np.cross(H, G)
        val = math.degrees(math.atan2(float(np.dot(np.cross(B, A), G)) / float(np.linalg.norm(G)), float(np.dot(A, B))))
        if name == 'ParamDihedralPhase':
            val = val - 180
            if val < -180:
                val += 360
            if val > 180:
                val -= 360
    if eff.format is not None:
        return '{value:{format}}'.format(value=val, format=eff.format)
    return val


def tmpl_match(state, inter, tmpl, match_):
    atoms = tuple(match_[a] for a in tmpl.atoms)
    if tuple(inter[0]) != atoms:
        return False
    if tmpl.parameters and tuple(tmpl.parameters) != tuple(inter[1]):
        return False
    for a, attrs in zip(atoms, getattr(tmpl, 'atom_attrs', [{}] * len(atoms))):
        if not all(val_match(state.nodes[a], k, v) for k, v in attrs.items()):
            return False
    return all(val_match(inter[2], k, v) for k, v in tmpl.meta.items())


def model_apply(mol, links):
    """Reference interpreter -> (table {type: [(atoms, params, meta)]}, surviving node set, per-link placements)."""
    state = mol.copy()
    table = {t: [(tuple(i.atoms), list(i.parameters), dict(i.meta)) for i in lst] for t, lst in mol.interactions.items() if lst}
    removed_nodes = []
    per_link = []
    for link in links:
        placements = oracle_placements(state, link)
        per_link.append(placements)
        for p in placements:
            for ln, attrs in link.nodes.items():
                if 'replace' in attrs:
                    if attrs['replace'].get('atomname', False) is None:
                        removed_nodes.append(p[ln])
                    else:
                        state.nodes[p[ln]].update(attrs['replace'])
            for t, tmpls in link.removed_interactions.items():
                for tm in tmpls:
                    lst = table.get(t, [])
                    for idx, inter in enumerate(lst):
                        if tmpl_match(state, inter, tm, p):
                            del lst[idx]
                            break
            for t, tmpls in link.interactions.items():
                for tm in tmpls:
                    atoms = tuple(p[a] for a in tm.atoms)
                    params = [geom(q, state, p) if callable(q) else q for q in tm.parameters]
                    lst = table.setdefault(t, [])
                    for idx, (a2, p2, m2) in enumerate(lst):
                        if a2 == atoms and m2.get('version', 0) == tm.meta.get('version', 0):
                            lst[idx] = (atoms, params, dict(tm.meta))
                            break
                    else:
                        lst.append((atoms, params, dict(tm.meta)))
        for n in removed_nodes:
            if n in state:
                state.remove_node(n)
            for t in list(table):
                table[t] = [x for x in table[t] if n not in x[0]]
                if not table[t]:
                    del table[t]
    return table, set(state.nodes), per_link


def norm(table):
    out = {}
    for t, lst in table.items():
        if not lst:
            continue

        def fmt(x):
            if isinstance(x, (float, np.floating)):
                return str(round(float(x), 5))
            return str(x)
        out[t] = sorted((tuple(atoms), tuple(fmt(x) for x in params), tuple(sorted((k, str(v)) for k, v in meta.items())))
                        for atoms, params, meta in lst)
    return out


# ------------------------------------------------------------------ monitor
_MON = {'installed': False, 'log': None}


def install():
    import vermouth.processors.do_links as DL
    if _MON['installed']:
        return DL
    orig = DL.match_link

    def wrapped(molecule, link):
        log = _MON['log']
        if log is None:
            yield from orig(molecule, link)
            return
        # state of the molecule when the link starts
        snap = molecule.copy()
        entry = {'link': link, 'snapshot': snap, 'yields': []}
        log.append(entry)
        for m in orig(molecule, link):
            entry['yields'].append(dict(m))
            yield m
    DL.match_link = wrapped
    _MON['installed'] = True
    return DL


def run_monitored(mol, links_ff, b):
    """DoLinks on mol under the monitor. -> (problem | None, info)"""
    DL = install()
    links = list(mol.force_field.links)
    before = mol.copy()
    try:
        exp_table, exp_nodes, exp_place = model_apply(before, links)
    except (ValueError, ZeroDivisionError, FloatingPointError) as e:
        return 'degenerate', {'error': repr(e)}
    _MON['log'] = []
    try:
        real = util.shared(DL.DoLinks).run_molecule(mol)
    except Exception as e:
        import traceback
        _MON['log'] = None
        return ('exception/%s' % type(e).__name__, {'error': repr(e), 'trace': traceback.format_exc()[-700:]}), {}
    log = _MON['log']
    _MON['log'] = None
    info = {'links': len(links), 'match_link_calls': len(log), 'placements': 0, 'multi': 0, 'near_miss': 0}
    if len(log) != len(links):
        return 'monitor', info
    fz = lambda d: frozenset(d.items())
    for li, entry in enumerate(log):
        stats = {}
        exp = oracle_placements(entry['snapshot'], entry['link'], stats)
        got = entry['yields']
        b.hits += 1
        info['placements'] += len(exp)
        if len(exp) >= 2:
            info['multi'] += 1
        if not exp and stats.get('attr_candidates'):
            info['near_miss'] += 1
        sg, se = sorted(map(sorted, map(fz, got)), key=repr), sorted(map(sorted, map(fz, exp)), key=repr)
        if len(set(map(fz, got))) != len(got):
            return ('placement/duplicate', {'link_index': li}), info
        if sg != se:
            only_real = [sorted(x) for x in set(map(fz, got)) - set(map(fz, exp))][:3]
            only_ref = [sorted(x) for x in set(map(fz, exp)) - set(map(fz, got))][:3]
            desc = {'link_index': li, 'link_atoms': {str(k): {a: str(v) for a, v in d.items()} for k, d in entry['link'].nodes(data=True)},
                    'link_interactions': {t: [[list(i.atoms), [str(x) for x in i.parameters]] for i in lst] for t, lst in entry['link'].interactions.items()},
                    'only_real': only_real, 'only_reference': only_ref,
                    'resids': {str(n): entry['snapshot'].nodes[n].get('resid') for x in (only_real + only_ref) for _, n in x}}
            return ('placement/unjustified' if only_real else 'placement/missed', desc), info
    b.hits += 1
    got_table = {t: [(tuple(i.atoms), list(i.parameters), dict(i.meta)) for i in lst] for t, lst in real.interactions.items() if lst}
    ne, ng = norm(exp_table), norm(got_table)
    if set(real.nodes) != exp_nodes:
        return ('nodes', {'only_real': sorted(set(real.nodes) - exp_nodes)[:5], 'only_reference': sorted(exp_nodes - set(real.nodes))[:5]}), info
    if ne != ng:
        d = {}
        for t in set(ne) | set(ng):
            a, c = set(ne.get(t, [])), set(ng.get(t, []))
            if a != c:
                d[t] = {'only_reference': [list(map(str, x)) for x in list(a - c)[:3]], 'only_real': [list(map(str, x)) for x in list(c - a)[:3]]}
        return ('interaction-table', d), info
    info['interactions'] = sum(len(v) for v in ng.values())
    return None, info


# ------------------------------------------------------------------ (a) real force fields
def build_cg(params):
    """CG molecule from the real upstream pipeline, then made hostile."""
    import vermouth
    from vermouth.dssp.dssp import AnnotateMartiniSecondaryStructures, AnnotateResidues
    from vermouth.processors.canonicalize_modifications import CanonicalizeModifications
    from vermouth.processors.repair_graph import RepairGraph
    from vermouth.system import System
    from ..gen import atomistic
    ffs, maps = setup()
    rnd = harness.rng('C05cg', params['seed'])
    ff_from = ffs['charmm']
    target = params['target']
    names = [n for n in atomistic.aa_names(ff_from) if n in maps['charmm'][target]]
    seq = [rnd.choice(names) for _ in range(params['L'])]
    if params['cys'] and params['L'] >= 4 and 'CYS' in names:
        i, j = sorted(rnd.sample(range(params['L']), 2))
        seq[i] = seq[j] = 'CYS'
    mods = []
    if params['termini']:
        if seq[0] != 'PRO':
            mods.append((0, 'N-ter'))
        mods.append((len(seq) - 1, 'C-ter'))
    mol, truth = atomistic.build_peptide(ff_from, seq, rnd, mods=mods, coords=True)
    system = System(force_field=ff_from)
    system.add_molecule(mol)
    util.shared(RepairGraph, include_graph=False).run_system(system)
    util.shared(CanonicalizeModifications).run_system(system)
    ss = ''.join(rnd.choice('HHHECTSGB') if rnd.random() < 0.5 else c for c in rnd.choice(['H', 'E', 'C']) * len(seq))
    AnnotateResidues(attribute='aasecstruct', sequence=ss).run_system(system)
    util.shared(AnnotateMartiniSecondaryStructures).run_system(system)
    vermouth.SetMoleculeMeta(extdih=params['extdih']).run_system(system)
    vermouth.SetMoleculeMeta(scfix=params['scfix']).run_system(system)
    vermouth.SetMoleculeMeta(idr=params['idr']).run_system(system)
    vermouth.AttachMass(attribute='mass').run_system(system)
    vermouth.DoMapping(mappings=maps, to_ff=ffs[target], delete_unknown=True,
                       attribute_keep=('cgsecstruct', 'chain', 'secstruct'), attribute_must=('resname',),
                       attribute_stash=('resid',)).run_system(system)
    vermouth.DoAverageBead(ignore_missing_graphs=True).run_system(system)
    cg = system.molecules[0]
    # make the positions generic (no collinear triples) and defined
    for n in cg.nodes:
        cg.nodes[n]['position'] = np.array([rnd.uniform(0, 3), rnd.uniform(0, 3), rnd.uniform(0, 3)])
    # hostile numbering
    resids = sorted({d['resid'] for _, d in cg.nodes(data=True)})
    mode = params['numbering']
    new = {}
    cur = rnd.choice([-1, 0, 0, 1, 1, 5, 100])
    for i, r in enumerate(resids):
        if mode == 'gaps' and i and rnd.random() < 0.3:
            cur += rnd.choice([2, 3, 10])
        elif mode == 'decreasing' and i == len(resids) // 2:
            cur -= rnd.choice([3, 5])
        else:
            cur += 1 if i else 0
        new[r] = cur
    if mode != 'keep':
        if len(set(new.values())) == len(new):
            for n in cg.nodes:
                cg.nodes[n]['resid'] = new[cg.nodes[n]['resid']]
    # extra cross links
    bbs = [n for n, d in cg.nodes(data=True) if d.get('atomname') == 'BB']
    if params['crosslink'] and len(bbs) >= 4:
        u, v = rnd.sample(bbs, 2)
        if not cg.has_edge(u, v):
            cg.add_edge(u, v)
    if params['cys']:
        sgs = [n for n, d in cg.nodes(data=True) if d.get('resname') == 'CYS' and d.get('atomname') == 'SC1']
        if len(sgs) >= 2:
            cg.add_edge(sgs[0], sgs[1])
            p0 = cg.nodes[sgs[0]]['position']
            cg.nodes[sgs[1]]['position'] = p0 + np.array([0.2, 0.05, 0.0])
    return cg, seq, ss


def gen_real(rnd):
    return {'seed': rnd.randrange(10 ** 9), 'target': rnd.choice(CG_FFS), 'L': rnd.randint(2, 9),
            'termini': rnd.random() < 0.7, 'cys': rnd.random() < 0.35, 'extdih': rnd.random() < 0.5,
            'scfix': rnd.random() < 0.5, 'idr': rnd.random() < 0.3,
            'numbering': rnd.choice(['keep', 'keep', 'gaps', 'gaps', 'decreasing']), 'crosslink': rnd.random() < 0.3}


# ------------------------------------------------------------------ (b) synthetic link lists
def synth_ff_text(rnd):
    """Toy force field: residue types with particles A B (C); an ordered list of links using the documented features."""
    out = []
    for rn, beads in (('XA', ['A', 'B']), ('XB', ['A', 'B', 'C']), ('XC', ['A'])):
        out += ['[ moleculetype ]', '%s 1' % rn, '[ atoms ]']
        for i, bname in enumerate(beads, 1):
            out.append('%d T%s 1 %s %s %d 0.0' % (i, bname, rn, bname, i))
        if len(beads) > 1:
            out.append('[ bonds ]')
            for x, y in zip(beads, beads[1:]):
                out.append('%s %s 1 0.3 1000' % (x, y))
        out.append('')
    nlinks = rnd.randint(2, 7)
    used = set()
    for li in range(nlinks):
        kind = rnd.choice(['bond+', 'bond+', 'angle', 'dihedral', 'gt', 'star', 'nonedge', 'pattern', 'molmeta', 'replace',
                           'remove', 'remove', 'override', 'explicit-order', 'choice', 'geom', 'star-intra', 'gt-intra', 'same-order',
                           'three-orders', 'three-orders', 'geom-angle', 'pattern-single', 'single', 'remove-meta'])
        out.append('[ link ]')
        if kind == 'bond+':
            if rnd.random() < 0.5:
                out.append('resname "XA|XB"')
            out += ['[ bonds ]', 'A +A 1 0.35 %d' % rnd.choice([1250, 1500]) + rnd.choice(['', '', '', ' {"version": 0}'])]
        elif kind == 'angle':
            out += ['[ angles ]', '-A A +A 2 %d 25' % rnd.choice([96, 127])]
        elif kind == 'dihedral':
            ver = rnd.randint(1, 2)
            out += ['[ dihedrals ]', 'A +A ++A +++A 1 -120 1 1 {"version": %d}' % ver]
        elif kind == 'gt':
            out += ['[ bonds ]', 'B >B 1 0.24 5000 {"comment": "far"}', '[ edges ]', 'B >B']
        elif kind == 'star':
            out += ['[ constraints ]', 'C *C 1 0.5', '[ edges ]', 'C *C']
        elif kind == 'star-intra':
            out += ['[ bonds ]', 'A *B 1 0.52 800 {"version": 6}', '[ edges ]', 'A *B']
        elif kind == 'gt-intra':
            out += ['[ bonds ]', 'A %sB 1 0.53 810 {"version": 7}' % rnd.choice(['>', '<']), '[ edges ]', 'A %sB' % '>']
            out[-1] = out[-1]
        elif kind == 'same-order':
            # both atoms must sit in one residue although a cross-residue A-B bond may exist
            out += ['[ pairs ]', 'A B 1 0.1 0.2', '[ edges ]', 'A B']
        elif kind == 'three-orders':
            # three different order prefixes in one link, at least one symbolic: every PAIR of them constrains the residues
            sym = rnd.choice(['>', '>>', '<', '<<', '*', '**'])
            others = rnd.sample(['', '+', '-', '++', '>', '>>', '<', '*'], 2)
            pre = [sym] + [o for o in others if o != sym]
            while len(pre) < 3:
                pre.append(rnd.choice([o for o in ['', '+', '-', '>', '<', '*', '>>'] if o not in pre]))
            rnd.shuffle(pre)
            names3 = [rnd.choice(['A', 'A', 'B']) for _ in pre]
            out += ['[ angles ]', '%s%s %s%s %s%s 2 %d 55 {"version": %d}' % (pre[0], names3[0], pre[1], names3[1], pre[2], names3[2],
                                                                          rnd.choice([101, 102]), 8 + li)]
        elif kind == 'nonedge':
            # one to three non-edges, towards the next / previous / own residue, from either link atom
            ne = rnd.sample(['A +A', 'A +B', 'B +A', 'A -A', 'A +C', 'B +B', 'A C', 'B -B'], rnd.choice([1, 1, 2, 3]))
            if rnd.random() < 0.4:
                ne = ['A +A']
            out += ['[ bonds ]', 'A B 1 0.31 %d' % rnd.choice([2000, 2100]), '[ non-edges ]'] + ne
        elif kind == 'pattern':
            out += ['[ angles ]', 'A +A +B 2 100 10', '[ patterns ]', 'A +A {"resname": "XA"} +B', 'A +A {"resname": "XB"} +B']
        elif kind == 'pattern-single':
            # a link of ONE atom whose [ patterns ] express an OR (retype A in residues XB or XC): it applies only where a pattern holds
            out += ['[ atoms ]', 'A {"replace": {"marker": %d}}' % (100 + li), '[ position_restraints ]', 'A 1 1000 1000 %d' % (100 + li),
                    '[ patterns ]', 'A {"resname": "XB"}', 'A {"resname": "XC"}']
        elif kind == 'single':
            # ... and one without patterns, restricted by a link-wide attribute
            out += ['resname "XA"', '[ atoms ]', 'B {"replace": {"marker": %d}}' % (200 + li)]
        elif kind == 'molmeta':
            out += ['[ molmeta ]', 'flag true', '[ bonds ]', 'A +A 1 0.40 700 {"version": 2}']
        elif kind == 'replace':
            if rnd.random() < 0.35:
                # a link that deletes an atom (replace atomname null): the atom and everything that mentions it disappear from THIS
                # molecule - and from no other molecule the same processor object handles afterwards
                out += ['[ atoms ]', 'C {"replace": {"atomname": null}}', 'B {}', '[ edges ]', 'B C']
            else:
                out += ['[ atoms ]', 'A {"replace": {"atype": "TX%d", "marker": %d}}' % (li, li), 'B {}', '[ edges ]', 'A B']
        elif kind == 'remove':
            if rnd.random() < 0.5:
                # several removals of one type in one link: some of them usually find nothing at a given placement (the rest must
                # still take effect), and overlapping placements remove each other's targets
                lines_ = rnd.sample(['A ++A', 'A +A', 'A B', '+A ++A', 'A +B'], rnd.randint(2, 3))
                out += ['[ !bonds ]'] + lines_ + ['[ edges ]', 'A +A', '+A ++A'] + (['A B'] if 'A B' in lines_ else []) + \
                    (['+A +B'] if 'A +B' in lines_ else [])
            else:
                out += ['[ !bonds ]', 'A B', '[ edges ]', 'A B']
            if rnd.random() < 0.5:
                out += ['[ bonds ]', 'A B 1 0.29 %d' % rnd.choice([3000, 4000])]
        elif kind == 'remove-meta':
            # a removal that names its target by the interaction's meta: of two bonds on the same atoms (the plain one, stored
            # first, and an alternative version) only the one whose meta satisfies the condition goes; a condition nothing
            # satisfies removes nothing
            out += ['[ bonds ]', 'A +A 1 0.35 1250',
                    '[ link ]', '[ bonds ]', 'A +A 1 0.41 650 {"version": 2%s}' % rnd.choice(['', ', "group": "alt"']),
                    '[ link ]', '[ !bonds ]', 'A +A -- {"version": %d}' % rnd.choice([2, 2, 3]), '[ edges ]', 'A +A']
        elif kind == 'override':
            # the same bond as 'bond+' again: it replaces the earlier one; an explicit version 0 is the same as no version
            out += ['[ bonds ]', 'A +A 1 0.36 999' + rnd.choice(['', '', ' {"version": 0}'])]
        elif kind == 'explicit-order':
            out += ['[ bonds ]', 'A {"order": 0} A {"order": %d} 1 0.6 300 {"version": 3}' % rnd.choice([2, -2]),
                    '[ edges ]', 'A {"order": 0} A {"order": %d}' % 2]
            out[-3] = out[-3]
        elif kind == 'choice':
            out += ['[ atoms ]', 'A {"resname": "XA|XC"}', '+A {"resname": "XB"}', '[ bonds ]', 'A +A 1 0.33 1100 {"version": 4}']
        elif kind == 'geom-angle':
            # an angle whose reference value is taken from the structure; the A atoms of some molecules lie on one line
            out += ['[ angles ]', 'A +A ++A 2 angle(A,+A,++A) 25 {"version": 6}', '[ edges ]', 'A +A', '+A ++A']
        elif kind == 'geom':
            out += ['[ bonds ]', 'A +B 1 dist(A,+B) 1250 {"version": 5}', '[ edges ]', 'A +A', '+A +B',
                    '[ non-edges ]' if False else '; geometry']
        out.append('')
    return '\n'.join(out) + '\n'


def build_synth(rnd):
    import io
    from vermouth.ffinput import read_ff
    from vermouth.forcefield import ForceField
    from vermouth.molecule import Molecule
    text = synth_ff_text(rnd)
    ff = ForceField(name='verif_c05_%d' % rnd.randrange(10 ** 9))
    read_ff(text.splitlines(), ff)
    mol = Molecule(force_field=ff, nrexcl=1)
    if rnd.random() < 0.5:
        mol.meta['flag'] = rnd.choice([True, False])
    L = rnd.randint(2, 9)
    resid = rnd.choice([-3, 0, 0, 1, 3, 50])
    key = 0
    first = {}
    prev = None
    # in some molecules the A atoms lie exactly on one line (stretched or folded back), in a direction off the axes: the cosine of
    # the angle between them is +-1 up to rounding, on either side
    line = None
    if rnd.random() < 0.3:
        d_ = rnd.choice([np.array([1.0, 1.0, 1.0]), np.array([0.3, -0.7, 0.2]), np.array([rnd.uniform(-1, 1) for _ in range(3)]),
                         np.array([0.0, 1.0, 0.0])])
        line = (np.array([rnd.uniform(0, 1) for _ in range(3)]), d_, [0.0])
    for i in range(L):
        rn = rnd.choice(['XA', 'XA', 'XB', 'XC'])
        blk = ff.blocks[rn]
        local = {}
        for an in blk.nodes:
            local[an] = key
            mol.add_node(key, atomname=an, resname=rn, resid=resid, chain='A', atype=blk.nodes[an]['atype'], charge_group=key + 1,
                         position=np.array([rnd.uniform(0, 2), rnd.uniform(0, 2), rnd.uniform(0, 2)]))
            if line is not None and an == 'A':
                line[2][0] += rnd.choice([0.35, 0.35, 0.47, -0.2, 1.0])
                mol.nodes[key]['position'] = line[0] + line[2][0] * line[1]
            key += rnd.choice([1, 1, 2])
        for inter in blk.interactions.get('bonds', []):
            u, v = inter.atoms
            mol.add_interaction('bonds', (local[u], local[v]), list(inter.parameters), dict(inter.meta))
            mol.add_edge(local[u], local[v])
        if prev is not None and rnd.random() < 0.5:
            # branched connection to the next residue, registered before or after the main-chain bond: an anchor then has
            # several neighbours in one residue, in either adjacency order
            branch = [(x, y) for x in sorted(prev) for y in sorted(local) if (x, y) != ('A', 'A')]
            pick = rnd.sample(branch, min(len(branch), rnd.randint(1, 2)))
            before = rnd.random() < 0.6
            if before:
                for x, y in pick:
                    mol.add_edge(prev[x], local[y])
            if rnd.random() < 0.9:
                mol.add_edge(prev['A'], local['A'])
            if not before:
                for x, y in pick:
                    mol.add_edge(prev[x], local[y])
        elif prev is not None and rnd.random() < 0.9:
            mol.add_edge(prev['A'], local['A'])
        first[i] = local
        prev = local
        resid += rnd.choice([1, 1, 1, 2, 4]) if rnd.random() < 0.9 else -3
    # side links
    for _ in range(rnd.randint(0, 3)):
        i, j = rnd.sample(range(L), 2)
        if rnd.random() < 0.5:
            for nm in ('B', 'C', 'A'):
                if nm in first[i] and nm in first[j] and not mol.has_edge(first[i][nm], first[j][nm]):
                    mol.add_edge(first[i][nm], first[j][nm])
                    break
        else:
            u = first[i][rnd.choice(sorted(first[i]))]
            v = first[j][rnd.choice(sorted(first[j]))]
            mol.add_edge(u, v)
    resids = [d['resid'] for _, d in mol.nodes(data=True)]
    by = {}
    for n, d in mol.nodes(data=True):
        by.setdefault(d['resid'], set()).add(d['resname'])
    if any(len(v) > 1 for v in by.values()):
        return None, text     # a decreasing run created a duplicate resid: not a valid molecule
    return mol, text


def cases(tier, seed):
    out = []
    rnd = harness.rng('C05plan', seed)
    nreal, per = (192, 12) if tier == 'quick' else (4000, 50)
    batch = []
    for _ in range(nreal):
        batch.append(gen_real(rnd))
        if len(batch) == per:
            out.append({'kind': 'real', 'items': batch})
            batch = []
    if batch:
        out.append({'kind': 'real', 'items': batch})
    nb, per2 = (16, 60) if tier == 'quick' else (64, 1200)
    out += [{'kind': 'synthetic', 'seed': seed, 'batch': b_, 'n': per2} for b_ in range(nb)]
    return out


def run_case(params):
    b = harness.Batch()
    if params['kind'] == 'real':
        for j, item in enumerate(params['items']):
            b.total += 1
            try:
                with harness.sub_alarm(90):
                    try:
                        cg, seq, ss = build_cg(item)
                    except harness.CaseTimeout:
                        raise
                    except Exception as e:
                        b.inconclusive('upstream-failed:%s' % type(e).__name__)
                        continue
                    p, info = run_monitored(cg, None, b)
            except harness.CaseTimeout:
                b.inconclusive('watchdog')
                continue
            if p in ('degenerate', 'monitor'):
                b.inconclusive(p)
                continue
            if p:
                b.violation(p[0], 'links applied differ from the reference (%s)' % p[0],
                            {'item': item, 'sequence': seq, 'secstruct': ss, 'detail': p[1], 'info': info})
                continue
            b.feat({'real_cases': 1, 'ff_' + item['target']: 1, 'placements': info['placements'],
                    'links_with_2plus_placements': info['multi'], 'links_near_miss': info['near_miss'],
                    'numbering_' + item['numbering']: 1, 'interactions_after': info.get('interactions', 0)})
            if info['multi'] and info['near_miss']:
                b.nontrivial(item, dict(item, sequence=seq, secstruct=ss, observed=info))
    else:
        rnd = harness.rng('C05', params['seed'], params['batch'])
        for j in range(params['n']):
            b.total += 1
            try:
                mol, text = build_synth(rnd)
            except Exception as e:
                import traceback
                b.inconclusive('generator:%s' % type(e).__name__)
                b.feat('generator_error_' + repr(e)[:80])
                continue
            if mol is None:
                b.total -= 1      # a decreasing run produced a duplicate residue number: draw again
                continue
            for link in mol.force_field.links:
                orders = {str(d.get('order')) for _, d in link.nodes(data=True)}
                b.feat({'synth_links': 1, 'synth_links_with_non_edges': int(bool(link.non_edges)),
                        'synth_links_with_patterns': int(bool(link.patterns)), 'synth_links_with_molmeta': int(bool(link.molecule_meta)),
                        'synth_links_with_removals': int(bool(link.removed_interactions)),
                        'synth_links_with_replace': int(any('replace' in d for _, d in link.nodes(data=True))),
                        'synth_links_order_gt': int(any(o.startswith('>') for o in orders)),
                        'synth_links_order_star': int(any(o.startswith('*') for o in orders)),
                        'synth_links_order_numeric_nonzero': int(any(o not in ('0', 'None') and o.lstrip('-').isdigit() for o in orders)),
                        'synth_links_with_effector': int(any(callable(q) for lst in link.interactions.values() for i in lst for q in i.parameters)),
                        'synth_links_with_choice': int(any(type(v).__name__ == 'Choice' for _, d in link.nodes(data=True) for v in d.values()))})
            desc = {'ff_text': text, 'atoms': [[n, d['atomname'], d['resname'], d['resid']] for n, d in mol.nodes(data=True)],
                    'edges': sorted(map(sorted, mol.edges)), 'meta': dict(mol.meta)}
            try:
                with harness.sub_alarm(20):
                    p, info = run_monitored(mol, None, b)
            except harness.CaseTimeout:
                b.inconclusive('watchdog')
                continue
            if p in ('degenerate', 'monitor'):
                b.inconclusive(p)
                continue
            if p:
                b.violation('synthetic/' + p[0], 'links applied differ from the reference (%s)' % p[0],
                            {'subcase': j, 'detail': p[1], 'info': info, 'case': desc})
                continue
            b.feat({'synthetic_cases': 1, 'placements': info['placements'], 'links_with_2plus_placements': info['multi'],
                    'links_near_miss': info['near_miss']})
            if info['multi'] and info['near_miss']:
                b.nontrivial(desc, dict(desc, observed=info))
    return b.result()
