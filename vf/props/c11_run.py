"""Child process of the C11 check: one real martinize2 run (entry()) with an in-memory presentation transform applied to
what the CLI's read_system returns.  Usage: python -m vf.props.c11_run <spec.json>"""
import json
import os
import random
import sys


def transform_system(system, spec):
    import numpy as np
    from vermouth.molecule import Molecule
    rnd = random.Random(spec.get('pseed', 0))
    kind = spec['presentation']
    record = {'kind': kind, 'order_changed': False, 'names_changed': 0, 'moved': False}
    if kind in ('reference', 'hashseed'):
        return record
    if kind == 'rigid':
        a = np.array([[rnd.gauss(0, 1) for _ in range(3)] for _ in range(3)])
        q, r = np.linalg.qr(a)
        q = q * np.sign(np.diag(r))
        if np.linalg.det(q) < 0:
            q[:, 0] = -q[:, 0]
        if spec.get('translate_only'):
            q = np.eye(3)
        t = np.array([rnd.uniform(-5, 5) for _ in range(3)])
        for mol in system.molecules:
            for n in mol.nodes:
                mol.nodes[n]['position'] = q @ np.asarray(mol.nodes[n]['position'], dtype=float) + t
        record['moved'] = True
        record['R'] = q.tolist()
        record['t'] = t.tolist()
        return record
    new_mols = []
    for mol in system.molecules:
        if kind == 'rename-h':
            per_res = {}
            nodes = list(mol.nodes(data=True))
            if spec.get('hstyle') == 'arbitrary-reversed':
                nodes.reverse()         # the numbers run against the order of the file
            for n, d in nodes:
                if d.get('element') == 'H':
                    key = (d.get('chain'), d.get('resid'), d.get('insertion_code'))
                    per_res[key] = per_res.get(key, 0) + 1
                    d['atomname'] = 'HX%d' % per_res[key] if spec.get('hstyle', 'arbitrary').startswith('arbitrary') else \
                        (d['atomname'][-1] + d['atomname'][:-1] if d['atomname'][-1].isdigit() and len(d['atomname']) > 1 else d['atomname'])
                    record['names_changed'] += 1
            new_mols.append(mol)
            continue
        # permute atoms within their residues (as if the lines of the file had been permuted)
        groups = []
        for n, d in mol.nodes(data=True):
            key = (d.get('chain'), d.get('resid'), d.get('insertion_code'), d.get('resname'))
            if not groups or groups[-1][0] != key:
                groups.append((key, []))
            groups[-1][1].append(n)
        order = []
        for key, nodes in groups:
            nodes = list(nodes)
            if spec.get('pstyle') == 'reverse':
                nodes.reverse()
            elif spec.get('pstyle') == 'rotate':
                k = spec.get('rotate_by', 1) % len(nodes)
                nodes = nodes[k:] + nodes[:k]
            else:
                rnd.shuffle(nodes)
            order += nodes
        if order != list(mol.nodes):
            record['order_changed'] = True
        new = Molecule()
        new.meta = dict(mol.meta)
        new._force_field = mol._force_field
        new.nrexcl = mol.nrexcl
        new.box = getattr(mol, 'box', None)
        mapping = {}
        for i, n in enumerate(order):
            mapping[n] = i
            d = dict(mol.nodes[n])
            d['atomid'] = i + 1
            new.add_node(i, **d)
        for u, v, d in mol.edges(data=True):
            new.add_edge(mapping[u], mapping[v], **d)
        new_mols.append(new)
    system.molecules = new_mols
    return record


def main():
    with open(sys.argv[1]) as f:
        spec = json.load(f)
    repo = os.environ.get('VERIF_REPO', '/repo')
    import importlib.machinery
    import importlib.util
    loader = importlib.machinery.SourceFileLoader('martinize2_cli', os.path.join(repo, 'bin', 'martinize2'))
    mspec = importlib.util.spec_from_loader('martinize2_cli', loader)
    cli = importlib.util.module_from_spec(mspec)
    loader.exec_module(cli)
    orig = cli.read_system
    records = []

    def wrapped(*a, **kw):
        system = orig(*a, **kw)
        records.append(transform_system(system, spec))
        return system
    cli.read_system = wrapped
    os.chdir(spec['outdir'])
    sys.argv = ['martinize2'] + spec['argv']
    code = 0
    try:
        cli.entry()
    except SystemExit as e:
        code = e.code if isinstance(e.code, int) else (0 if e.code is None else 1)
    with open(os.path.join(spec['outdir'], 'presentation.json'), 'w') as f:
        json.dump({'records': records, 'exit': code}, f)
    sys.exit(code)


if __name__ == '__main__':
    main()
