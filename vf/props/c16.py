"""C16 - structure files round-trip: what is written is read back.

Events : systems returned by read_pdb / read_gro from text produced by write_pdb_string / write_gro.
Oracle : field-by-field comparison with the system in memory, with format-precision tolerances; bond set via
         CONECT and molecule division via TER for systems that fit the five-digit numbering; an overflowing field
         may change only itself.
"""
import io
import os
import re
import tempfile

import numpy as np

from .. import harness, util

PROPERTY = 'C16'
LEVEL = 'exploration'
RULE = ('Generated systems of 1-6 molecules (quick: plus systems crossing 9 999 atoms; thorough: also crossing 99 999), '
        'molecules as chains, stars with degree up to 12, rings and random graphs, sparse/shuffled node keys, optional '
        'atomid permutations; names of 1-6 characters, resids -999..120 000, chains of 0-2 characters, insertion '
        'codes, coordinates over +-9999.999 A plus overflow, GRO velocities and precision settings. Written with '
        'write_pdb_string / write_gro and read back with read_pdb / read_gro. Non-trivial = system with >= 2 molecules '
        'and (a node of degree >= 5, or > 9 999 atoms, or an overflowing field). distinct = distinct system hashes.')
ASSUMPTIONS = ['altloc other than ""/"A", residue name SOL, empty molecules and inter-molecule bonds are not generated',
               'GRO has no chain/bond/molecule information: only order, names, resid, coordinates (velocities) compared',
               'a field that does not fit its column is only required not to disturb the other fields',
               'GRO atom order: node order or atom-id order are both accepted (the format does not say)']
MIN_HITS = {'quick': 1500, 'thorough': 40000}
CASE_TIMEOUT = 900
SHARDS_PER_PROC = 3


def gen_molecule(rnd, n, shape, cfg):
    keys = list(range(n))
    ks = rnd.choice(['zero', 'offset', 'sparse', 'shuffled']) if n < 2000 else rnd.choice(['zero', 'offset'])
    if ks == 'offset':
        keys = [k + 17 for k in keys]
    elif ks == 'sparse':
        keys = sorted(rnd.sample(range(n * 3 + 3), n))
    elif ks == 'shuffled':
        keys = rnd.sample(range(n * 2 + 2), n)
    edges = []
    if shape == 'chain':
        edges = [(keys[i], keys[i + 1]) for i in range(n - 1)]
    elif shape == 'ring' and n >= 3:
        edges = [(keys[i], keys[(i + 1) % n]) for i in range(n)]
    elif shape == 'star':
        # hubs of degree up to 12, hub placed anywhere in the order
        i = 0
        while i < n - 1:
            deg = rnd.randint(1, 12)
            members = keys[i:i + deg + 1]
            hub = rnd.choice(members)
            edges += [(hub, m) for m in members if m != hub]
            if i + deg + 1 < n:
                edges.append((members[-1], keys[i + deg + 1]))
            i += deg + 1
    elif shape == 'random':
        for i in range(1, n):
            edges.append((keys[i], keys[rnd.randrange(i)]))
        for _ in range(rnd.randint(0, n)):
            u, v = rnd.sample(keys, 2) if n >= 2 else (keys[0], keys[0])
            if u != v:
                edges.append((u, v))
    atoms = []
    resid = rnd.choice([1, 1, 0, -5, 995, 9995, cfg.get('resid_start', 1)])
    chain = rnd.choice(['A', 'B', '', 'Z', 'AB'] if cfg.get('wild') else ['A', 'B', '', 'Z'])
    for i, k in enumerate(keys):
        if rnd.random() < 0.25:
            resid += rnd.choice([1, 1, 1, 3, 100]) if not cfg.get('wild') else rnd.choice([1, 1, 5, 1000, 50000])
        nm = rnd.choice(['CA', 'N', 'BB', 'SC1', 'O', 'H', 'HD21', 'C1', 'NA'])
        rn = rnd.choice(['ALA', 'GLY', 'LYS', 'W', 'ION', 'HSD'])
        if rnd.random() < 0.12:
            # legal but unusual characters in names (mol2 / nucleic-acid style)
            nm = rnd.choice(['C.3', 'N.ar', "O5'", 'C1*', 'H+', 'O.2', "H5''", 'C#', 'N#1', 'C;1'])
        if rnd.random() < 0.06:
            rn = rnd.choice(['A.B', 'D.A', 'U+', 'L#1', 'A;B'])
        if cfg.get('wild') and rnd.random() < 0.1:
            nm = rnd.choice(['ABCDE', 'ABCDEF', 'X'])
        if cfg.get('wild') and rnd.random() < 0.1:
            rn = rnd.choice(['POPC', 'ABCDEF', 'A'])
        scale = cfg.get('scale', 50.0)
        pos = [round(rnd.uniform(-scale, scale), 4) for _ in range(3)]
        if cfg.get('wild') and rnd.random() < 0.03:
            pos[rnd.randrange(3)] = rnd.choice([1234.5678, -1234.5678, 99999.5])
        a = {'atomname': nm, 'resname': rn, 'resid': resid, 'chain': chain, 'position': pos}
        if rnd.random() < 0.1:
            a['insertion_code'] = rnd.choice('AB')
        if cfg.get('vel'):
            a['velocity'] = [round(rnd.uniform(-3, 3), 5) for _ in range(3)]
        atoms.append((k, a))
    aid = rnd.choice(['none', 'none', 'identity', 'perm']) if n < 2000 else 'none'
    if aid == 'identity':
        for i, (k, a) in enumerate(atoms):
            a['atomid'] = i + 1
    elif aid == 'perm':
        p = list(range(1, n + 1))
        rnd.shuffle(p)
        for (k, a), x in zip(atoms, p):
            a['atomid'] = x
    return {'atoms': atoms, 'edges': edges, 'shape': shape}


def gen_system(rnd, kind):
    cfg = {'wild': rnd.random() < 0.4, 'vel': rnd.random() < 0.3, 'scale': rnd.choice([5.0, 50.0, 999.0])}
    if kind == 'small':
        sizes = [rnd.randint(1, 30) for _ in range(rnd.randint(1, 6))]
    elif kind == '10k':
        total = rnd.choice([9998, 9999, 10000, 10001, 10002, 10500])
        parts = rnd.randint(2, 4)
        cuts = sorted(rnd.sample(range(1, total), parts - 1))
        sizes = [b - a for a, b in zip([0] + cuts, cuts + [total])]
    else:  # 100k
        total = rnd.choice([99990, 99995, 99999, 100000, 100005])
        parts = 28
        base = total // parts
        sizes = [base] * (parts - 1) + [total - base * (parts - 1)]
    mols = []
    for n in sizes:
        shape = rnd.choice(['chain', 'ring', 'star', 'star', 'random']) if n < 3000 else rnd.choice(['chain', 'star'])
        mols.append(gen_molecule(rnd, n, shape, cfg))
    return {'mols': mols, 'cfg': cfg, 'kind': kind, 'precision': rnd.choice([7, 7, 8, 9]) if kind == 'small' else 7}


def build(case):
    from vermouth.forcefield import ForceField
    from vermouth.molecule import Molecule
    from vermouth.system import System
    ff = ForceField(name='verif_c16')
    system = System(force_field=ff)
    for m in case['mols']:
        mol = Molecule(force_field=ff)
        for k, a in m['atoms']:
            d = dict(a)
            d['position'] = np.array(a['position'], dtype=float)
            if 'velocity' in d:
                d['velocity'] = np.array(a['velocity'], dtype=float)
            mol.add_node(k, **d)
        mol.add_edges_from(m['edges'])
        system.add_molecule(mol)
    return system


def changed_by_write(system, case):
    """The file is compared with the system as the caller holds it: writing must leave that system as it was (a writer that
    converts units or fills defaults in place makes the second file, or the file of the other format, state something else)."""
    for mol, m in zip(system.molecules, case['mols']):
        if list(mol.nodes) != [k for k, _ in m['atoms']]:
            return {'what': 'nodes', 'observed': list(mol.nodes)[:10], 'expected': [k for k, _ in m['atoms']][:10]}
        for k, a in m['atoms']:
            d = mol.nodes[k]
            if set(d) != set(a):
                return {'what': 'attribute names', 'node': k, 'observed': sorted(d), 'expected': sorted(a)}
            for name, want in a.items():
                got = d[name]
                if name in ('position', 'velocity'):
                    same = np.array_equal(np.asarray(got, dtype=float), np.asarray(want, dtype=float), equal_nan=True)
                else:
                    same = type(got) is type(want) and got == want
                if not same:
                    return {'what': 'attribute ' + name, 'node': k, 'observed': repr(got)[:80], 'expected': repr(want)[:80]}
        if {frozenset(e) for e in mol.edges} != {frozenset(e) for e in m['edges']}:
            return {'what': 'edges'}
    return None


def fits_int(v, width):
    return len(str(v)) <= width


def expect_order(m):
    pos = {k: i for i, (k, _) in enumerate(m['atoms'])}
    return sorted(m['atoms'], key=lambda ka: (ka[1].get('atomid', float('inf')), pos[ka[0]]))


def check_pdb(case, feats):
    from vermouth.pdb import pdb as vpdb
    system = build(case)
    # through the string function, or through the file-writing function with its options spelled in different ways (bonds are asked
    # for in every variant, explicitly or by default; charges are kept or omitted)
    route = int(harness.h([case.get('mols') and len(case['mols']), 'route', len(str(case))]), 16) % 5
    fd, path = tempfile.mkstemp(suffix='.pdb')
    os.close(fd)
    try:
        if route < 2:
            text = vpdb.write_pdb_string(system, conect=True)
            with open(path, 'w') as f:
                f.write(text + '\n')
        elif route == 2:
            vpdb.write_pdb(system, path, defer_writing=False)
        elif route == 3:
            vpdb.write_pdb(system, path, omit_charges=False, defer_writing=False)
        else:
            vpdb.write_pdb(system, path, conect=True, omit_charges=False, nan_missing_pos=False, defer_writing=False)
        feats['pdb_written_through_' + ['string', 'string', 'write_pdb_defaults', 'write_pdb_with_charges', 'write_pdb_all_options'][route]] = 1
        mols = vpdb.read_pdb(path, exclude=())
    finally:
        os.remove(path)
    ch = changed_by_write(system, case)
    if ch:
        return ('pdb/system-changed-by-writing', ch)
    total = sum(len(m['atoms']) for m in case['mols'])
    serial_ok = total + len(case['mols']) <= 99999
    if serial_ok or True:
        if len(mols) != len(case['mols']) or [len(x) for x in mols] != [len(m['atoms']) for m in case['mols']]:
            if serial_ok:
                return ('pdb/molecule-division', {'observed_sizes': [len(x) for x in mols][:12],
                                                  'expected_sizes': [len(m['atoms']) for m in case['mols']][:12],
                                                  'total_atoms': total})
            if sum(len(x) for x in mols) != total:
                return ('pdb/atom-count', {'observed': sum(len(x) for x in mols), 'expected': total})
            return None  # beyond five-digit numbering only atoms are compared, and molecule division is lost
    overflow = False
    for mi, (m, got) in enumerate(zip(case['mols'], mols)):
        order = expect_order(m)
        gnodes = list(got.nodes(data=True))
        newkey = {}
        for (k, a), (gk, g) in zip(order, gnodes):
            newkey[k] = gk
            exp = {'atomname': a['atomname'], 'resname': a['resname'], 'chain': a['chain'], 'resid': a['resid'],
                   'insertion_code': a.get('insertion_code', '')}
            widths = {'atomname': 4, 'resname': 3, 'chain': 1}
            for fld in ('atomname', 'resname', 'chain', 'insertion_code'):
                w = widths.get(fld, 1)
                if len(exp[fld]) <= w:
                    if g.get(fld) != exp[fld]:
                        return ('pdb/field', {'molecule': mi, 'key': k, 'field': fld, 'observed': g.get(fld), 'expected': exp[fld]})
                else:
                    overflow = True
            if fits_int(exp['resid'], 4):
                if g.get('resid') != exp['resid']:
                    return ('pdb/field', {'molecule': mi, 'key': k, 'field': 'resid', 'observed': g.get('resid'), 'expected': exp['resid']})
            else:
                overflow = True
            for ax in range(3):
                ang = a['position'][ax] * 10
                if len('%.3f' % ang) <= 8:
                    if abs(g['position'][ax] - a['position'][ax]) > 0.00005 + 1e-9:
                        return ('pdb/position', {'molecule': mi, 'key': k, 'axis': ax, 'observed': float(g['position'][ax]),
                                                 'expected': a['position'][ax]})
                else:
                    overflow = True
        if serial_ok:
            want = {frozenset((newkey[u], newkey[v])) for u, v in m['edges'] if u != v}
            have = {frozenset(e) for e in got.edges}
            if want != have:
                return ('pdb/conect', {'molecule': mi, 'missing': [sorted(e) for e in list(want - have)[:5]],
                                       'extra': [sorted(e) for e in list(have - want)[:5]],
                                       'n_expected': len(want), 'n_observed': len(have), 'total_atoms': total})
    if overflow:
        feats['pdb_field_overflow'] = 1
    return None


def check_gro(case, feats):
    from vermouth.gmx import gro as vgro
    system = build(case)
    has_vel = all('velocity' in m['atoms'][0][1] for m in case['mols'])
    d = tempfile.mkdtemp(prefix='c16gro')
    path = os.path.join(d, 'x.gro')
    try:
        vgro.write_gro(system, path, precision=case['precision'], box=(10, 10, 10), defer_writing=False)
        got = vgro.read_gro(path, exclude=())
    finally:
        import shutil
        shutil.rmtree(d, ignore_errors=True)
    ch = changed_by_write(system, case)
    if ch:
        return ('gro/system-changed-by-writing', ch)
    node_order = [a for m in case['mols'] for _, a in m['atoms']]
    id_order = [a for m in case['mols'] for _, a in expect_order(m)]
    g = [dd for _, dd in got.nodes(data=True)]
    if len(g) != len(node_order):
        return ('gro/atom-count', {'observed': len(g), 'expected': len(node_order)})

    def cmp(order):
        overflow = False
        for i, (a, o) in enumerate(zip(order, g)):
            for fld, w in (('atomname', 5), ('resname', 5)):
                if len(a[fld]) <= w:
                    if o.get(fld) != a[fld]:
                        return ('gro/field', {'index': i, 'field': fld, 'observed': o.get(fld), 'expected': a[fld]}), overflow
                else:
                    overflow = True
            if fits_int(a['resid'], 5):
                if o.get('resid') != a['resid']:
                    return ('gro/field', {'index': i, 'field': 'resid', 'observed': o.get('resid'), 'expected': a['resid']}), overflow
            else:
                overflow = True
            for ax in range(3):
                if len('%.3f' % a['position'][ax]) <= case['precision'] + 1:
                    if abs(o['position'][ax] - a['position'][ax]) > 0.0005 + 1e-9:
                        return ('gro/position', {'index': i, 'axis': ax, 'observed': float(o['position'][ax]),
                                                 'expected': a['position'][ax]}), overflow
                else:
                    overflow = True
            if has_vel:
                # velocities are not part of the property statement (name, residue, number, chain, coordinates): observed and
                # counted, never a violation.  (Seen: the reader decides "has velocities" by counting dots on the first atom
                # line, so a dot in the first atom's NAME makes it drop the velocities of the whole file.)
                if 'velocity' not in o:
                    feats['gro_velocities_not_read_back'] = 1
                elif any(abs(o['velocity'][ax] - a['velocity'][ax]) > 0.00005 + 1e-9 for ax in range(3)):
                    feats['gro_velocity_differs'] = 1
        return None, overflow
    p, ov = cmp(node_order)
    if p and node_order != id_order:
        p2, ov = cmp(id_order)
        if p2 is None:
            p = None
            feats['gro_written_in_atomid_order'] = 1
    if ov:
        feats['gro_field_overflow'] = 1
    if has_vel:
        feats['gro_velocities'] = 1
    return p


def cases(tier, seed):
    out = []
    if tier == 'quick':
        out += [{'seed': seed, 'batch': b, 'kind': 'small', 'n': 60} for b in range(28)]
        out += [{'seed': seed, 'batch': 100 + b, 'kind': '10k', 'n': 1} for b in range(4)]
    else:
        out += [{'seed': seed, 'batch': b, 'kind': 'small', 'n': 350} for b in range(120)]
        out += [{'seed': seed, 'batch': 100 + b, 'kind': '10k', 'n': 1} for b in range(30)]
        out += [{'seed': seed, 'batch': 200 + b, 'kind': '100k', 'n': 1} for b in range(10)]
    return out


def run_case(params):
    rnd = harness.rng('C16', params['seed'], params['batch'])
    b = harness.Batch()
    for j in range(params['n']):
        case = gen_system(rnd, params['kind'])
        if params['kind'] == 'small' and params['batch'] % 8 == 5:
            # atom names without any letter ('123'): drawn in every eighth batch only and from a generator of their own, so that
            # the other batches are what they were; both readers refuse such a name (known finding, see known_findings.json)
            r2 = harness.rng('C16-letterless', params['seed'], params['batch'], j)
            if r2.random() < 0.3:
                m = r2.choice(case['mols'])
                m['atoms'][r2.randrange(len(m['atoms']))][1]['atomname'] = r2.choice(['123', '1', "2'", '5*'])
                case['letterless'] = True
        total = sum(len(m['atoms']) for m in case['mols'])
        maxdeg = 0
        for m in case['mols']:
            deg = {}
            for u, v in m['edges']:
                deg[u] = deg.get(u, 0) + 1
                deg[v] = deg.get(v, 0) + 1
            maxdeg = max([maxdeg] + list(deg.values()))
        desc = {'kind': case['kind'], 'molecule_sizes': [len(m['atoms']) for m in case['mols']],
                'shapes': [m['shape'] for m in case['mols']], 'max_degree': maxdeg, 'cfg': case['cfg']}
        f = {}
        for fmt, fn in (('pdb', check_pdb), ('gro', check_gro)):
            if fmt == 'gro' and params['kind'] == '100k':
                continue
            try:
                p = fn(case, f)
            except Exception as e:  # valid input: the code under test must not fail
                if not harness.from_repo(e):
                    raise         # an error of the harness/oracle is never a violation
                import traceback
                p = ('%s/exception/%s' % (fmt, type(e).__name__), {'error': repr(e), 'trace': traceback.format_exc()[-700:]})
                if case.get('letterless') and isinstance(e, ValueError) and str(e).startswith('No alpha') and \
                        re.search(r'(pdb|gro)\.py", line \d+, in (_atom|read_gro)\b', traceback.format_exc()):
                    # only this mechanism: the reader's element guess (utils.first_alpha) raised for a name without letters
                    p = ('read/atom-name-without-letter', dict(p[1], format=fmt))
            b.hits += 1
            if p:
                key = p[0]
                if key in ('pdb/conect', 'pdb/molecule-division') and total > 9999:
                    key = 'pdb/conect-beyond-9999'
                small = total <= 60
                b.violation(key, '%s round trip differs (%s)' % (fmt.upper(), p[0]),
                            {'subcase': j, 'system': desc, 'detail': p[1], 'case': case if small else 'large (regenerate from params)'})
        b.feat(f)
        b.feat('atoms_over_9999', int(total > 9999))
        b.feat('atoms_over_99999', int(total > 99999))
        b.feat('degree_ge_5', int(maxdeg >= 5))
        if len(case['mols']) >= 2 and (maxdeg >= 5 or total > 9999 or f.get('pdb_field_overflow') or f.get('gro_field_overflow')):
            b.nontrivial(harness.h([desc, j, params]), desc)
    return b.result()
