"""C08 - warning allowances are accounted exactly; errors are never waived.

Events : the value returned by vermouth.log_helpers.ignore_warnings_and_count on a real
         CountingHandler that was fed by real logging calls through the repository's
         StyleAdapter/TypeAdapter chain; the tuples returned by bin/martinize2:maxwarn for
         the textual specifications.
Oracle : the arithmetic of the property statement, written from the statement.
"""
import argparse
import itertools
import logging

from .. import harness, util

PROPERTY = 'C08'
LEVEL = 'exploration'
RULE = ('Each case is a batch of sub-cases; a sub-case is a multiset of log records (levels DEBUG..CRITICAL incl. '
        'a custom level 35, 0-6 types, counts 0-12, logged through the real adapters into a real CountingHandler) '
        'plus 1-3 -maxwarn groups of textual specifications (numbers incl. 0/negative/huge, names, name:count, '
        'repeats, absent types) parsed by the CLI\'s own maxwarn(). Non-trivial = at least two types logged at '
        'WARNING, at least one specification that applies to a logged type and a non-zero blanket or numeric '
        'limit; distinct = distinct (counts, specification) pairs. The exhaustive batches enumerate the whole '
        'sub-domain 2 types x counts<=3 x one optional ERROR x all lists of <=2 specs over a 7-token alphabet. Also: the order in which types are first logged varies, records interleaved; the function is called twice on the same handler.')
ASSUMPTIONS = ['a type both waived by name and given a numeric limit is unspecified: any result between '
               '"name wins" and "number wins" is accepted',
               'records reach the CountingHandler through logging.Logger.callHandlers as in the CLI']
MIN_HITS = {'quick': 20000, 'thorough': 500000}
CASE_TIMEOUT = 300

TYPES = ['general', 'inconsistent-data', 'unmapped-atom', 'pdb-alternate', 'missing-feature', 'unknown-residue',
         'x:y'.replace(':', '_'), 'édge']
LEVELS = [logging.DEBUG, logging.INFO, logging.WARNING, 35, logging.ERROR, logging.CRITICAL]
_N = [0]


def reference(counts, parsed_groups):
    """counts: {(level, type): n}; parsed_groups: list of lists of (type|None, count|None).
    Returns (lo, hi): admissible range for the number of warnings left."""
    above = sum(n for (lvl, _), n in counts.items() if lvl > logging.WARNING)
    warn = {}
    for (lvl, t), n in counts.items():
        if lvl == logging.WARNING and n:
            warn[t] = warn.get(t, 0) + n
    named = set()
    limits = {}
    blanket = None
    for group in parsed_groups:
        for t, c in group:
            if c is None:
                named.add(t)
            elif t is None:
                blanket = c if blanket is None else max(blanket, c)
            else:
                limits[t] = c if t not in limits else max(limits[t], c)
    blanket = max(0, blanket or 0)
    lo = hi = above
    rest = 0
    for t, n in warn.items():
        if t in named and t in limits:       # unspecified combination
            hi += max(0, n - max(0, limits[t]))
        elif t in named:
            pass
        elif t in limits:
            x = max(0, n - max(0, limits[t]))
            lo += x
            hi += x
        else:
            rest += n
    x = max(0, rest - blanket)
    return lo + x, hi + x


def my_parse(text):
    """Independent reading of one -maxwarn token: 'N' | 'type' | 'type:N'."""
    if ':' in text:
        t, _, c = text.partition(':')
        return (t, int(c))
    try:
        return (None, int(text))
    except ValueError:
        return (text, None)


def observe(counts, groups_text, handler_level):
    """Drive the real code. Returns (left, parsed_groups)."""
    from vermouth.log_helpers import (CountingHandler, StyleAdapter, TypeAdapter,
                                      ignore_warnings_and_count)
    cli = util.load_cli()
    _N[0] += 1
    base = logging.getLogger('verif_c08.n%d' % _N[0])
    base.propagate = False
    base.setLevel(1)
    counter = CountingHandler()
    counter.setLevel(handler_level)
    base.addHandler(counter)
    lg = StyleAdapter(TypeAdapter(base))
    order = sorted(counts.items(), key=lambda kv: harness.h(kv[0]))
    # the order in which the types are first logged varies with the case; one case in three interleaves the records
    import random
    r = random.Random(harness.h([sorted((str(k), v) for k, v in counts.items()), groups_text]))
    r.shuffle(order)
    records = [(lvl, t, i) for (lvl, t), n in order for i in range(n)]
    if r.random() < 0.33:
        r.shuffle(records)
    for lvl, t, i in records:
        if t is None:
            lg.log(lvl, 'record {} of default type', i)
        else:
            lg.log(lvl, 'record {} of {}', i, t, type=t)
    parsed = [[cli.maxwarn(tok) for tok in g] for g in groups_text]
    left = ignore_warnings_and_count(counter, parsed)
    # the function is asked again on the same handler and the same specifications: it must not have consumed anything
    again = ignore_warnings_and_count(counter, [[tuple(x) if isinstance(x, list) else x for x in g] for g in parsed])
    if again != left:
        left = ('second-call-differs', left, again)
    # ... and afterwards with no allowance at all, and the handler's own tally: what was waived above is still on record
    counter.verif_after = {'no_allowance': ignore_warnings_and_count(counter, []),
                           'tally': counter.number_of_counts_by(level=logging.WARNING)}
    base.removeHandler(counter)
    logging.Logger.manager.loggerDict.pop(base.name, None)
    return left, parsed, counter


def check_one(counts, groups_text, handler_level=logging.WARNING):
    """-> (ok, detail, nontrivial, features)"""
    left, parsed, counter = observe(counts, groups_text, handler_level)
    feats = {}
    exp_parsed = [[my_parse(t) for t in g] for g in groups_text]
    if parsed != exp_parsed:
        return False, {'kind': 'parser', 'observed': parsed, 'expected': exp_parsed}, False, feats, 'maxwarn-parser'
    # 'general' is the default type
    norm = {}
    for (lvl, t), n in counts.items():
        if handler_level > lvl:
            continue  # the handler never sees it; at WARNING these are irrelevant to the statement anyway
        k = (lvl, 'general' if t is None else t)
        norm[k] = norm.get(k, 0) + n
    if isinstance(left, tuple):
        return False, {'kind': 'history', 'first_call': left[1], 'second_call_same_arguments': left[2], 'specs': groups_text,
                       'counts': {'%s/%s' % k: v for k, v in norm.items()}}, False, feats, 'history/second-call-differs'
    lo, hi = reference(norm, exp_parsed)
    if lo != hi:
        feats['unspecified_combination'] = 1
    lo0, hi0 = reference(norm, [])
    tally = sum(n for (lvl, t), n in norm.items() if lvl >= logging.WARNING)   # "by level" counts that level and above
    after = counter.verif_after
    feats['history_no_allowance_after'] = 1
    if not lo0 <= after['no_allowance'] <= hi0 or after['tally'] != tally:
        return False, {'kind': 'history', 'after_evaluating': groups_text, 'left_without_allowance': after['no_allowance'],
                       'expected_range': [lo0, hi0], 'handler_tally': after['tally'], 'warnings_logged': tally,
                       'counts': {'%s/%s' % k: v for k, v in norm.items()}}, False, feats, 'history/evaluation-consumed-records'
    ok = lo <= left <= hi
    detail = None
    key = None
    if not ok:
        detail = {'kind': 'count', 'observed_left': left, 'expected_range': [lo, hi],
                  'counts': {'%s/%s' % k: v for k, v in norm.items()}, 'specs': groups_text}
        key = 'count'
    else:
        # derived statements, each evaluated on the real function again
        if left < 0:
            return False, {'kind': 'negative', 'left': left}, False, feats, 'negative'
        if lo == hi:
            # an allowance for a type that did not occur changes nothing
            absent = 'never-logged-type'
            l2, _, _ = observe(counts, groups_text + [[absent + ':7', absent]], handler_level)
            feats['derived_absent_type'] = 1
            if l2 != left:
                return False, {'kind': 'absent-type-allowance', 'before': left, 'after': l2,
                               'specs': groups_text}, False, feats, 'absent-type'
            # one more ERROR raises the result by exactly one
            c2 = dict(counts)
            c2[(logging.ERROR, 'general')] = c2.get((logging.ERROR, 'general'), 0) + 1
            l3, _, _ = observe(c2, groups_text, handler_level)
            feats['derived_error_plus_one'] = 1
            if l3 != left + 1:
                return False, {'kind': 'error-waived', 'before': left, 'after_one_more_error': l3,
                               'specs': groups_text}, False, feats, 'error-waived'
    warn_types = {t for (lvl, t), n in norm.items() if lvl == logging.WARNING and n}
    applies = any((t in warn_types or (t is None and c)) for g in exp_parsed for t, c in g)
    nontrivial = len(warn_types) >= 2 and applies
    if any(lvl > logging.WARNING and n for (lvl, _), n in norm.items()):
        feats['has_error_records'] = 1
    if left == 0:
        feats['left_zero'] = 1
    else:
        feats['left_positive'] = 1
    return ok, detail, nontrivial, feats, key


def gen_random(rnd):
    ntypes = rnd.randint(0, 6)
    types = rnd.sample(TYPES, ntypes)
    if rnd.random() < 0.3:
        types.append(None)
    counts = {}
    for t in types:
        for lvl in LEVELS:
            if rnd.random() < (0.6 if lvl == logging.WARNING else 0.15):
                counts[(lvl, t)] = rnd.choice([0, 1, 1, 2, 3, 5, 8, 12])
    pool = [t for t in types if t is not None] + rnd.sample(TYPES, 2) + ['general']
    groups = []
    for _ in range(rnd.choice([0, 1, 1, 1, 2, 3])):
        g = []
        for _ in range(rnd.randint(1, 3)):
            r = rnd.random()
            num = rnd.choice([0, 1, 1, 2, 3, 4, 7, 12, 10 ** 9, -1, -5])
            if r < 0.3:
                g.append(str(num))
            elif r < 0.5:
                g.append(rnd.choice(pool))
            else:
                g.append('%s:%d' % (rnd.choice(pool), num))
        groups.append(g)
    hl = logging.WARNING if rnd.random() < 0.8 else rnd.choice([0, 1, logging.INFO])
    return counts, groups, hl


ALPHABET = ['1', '2', 'a', 'b', 'a:1', 'b:2', 'a:-1']


def gen_exhaustive(part, nparts):
    """2 types x counts <= 3 x optional ERROR x all spec lists of <= 2 tokens (one or two groups)."""
    spec_lists = [[]]
    for t in ALPHABET:
        spec_lists.append([[t]])
    for t1 in ALPHABET:
        for t2 in ALPHABET:
            spec_lists.append([[t1, t2]])
            spec_lists.append([[t1], [t2]])
    i = 0
    for na in range(4):
        for nb in range(4):
            for ne in (0, 1):
                for sl in spec_lists:
                    i += 1
                    if i % nparts != part:
                        continue
                    counts = {(logging.WARNING, 'a'): na, (logging.WARNING, 'b'): nb, (logging.ERROR, 'a'): ne}
                    yield counts, sl, logging.WARNING


def cases(tier, seed):
    nb, per = (16, 1300) if tier == 'quick' else (64, 9000)
    out = [{'mode': 'random', 'seed': seed, 'batch': b, 'n': per} for b in range(nb)]
    nparts = 8 if tier == 'quick' else 8
    for p in range(nparts):
        out.append({'mode': 'exhaustive', 'part': p, 'nparts': nparts})
    return out


def run_case(params):
    if params['mode'] == 'random':
        rnd = harness.rng('C08', params['seed'], params['batch'])
        gen = (gen_random(rnd) for _ in range(params['n']))
    else:
        gen = gen_exhaustive(params['part'], params['nparts'])
    hits = 0
    feats = {}
    nth = set()
    sample = None
    for counts, groups, hl in gen:
        ok, detail, nontrivial, f, key = check_one(counts, groups, hl)
        hits += 1
        for k, v in f.items():
            feats[k] = feats.get(k, 0) + v
        desc = {'records': {'%s/%s' % k: v for k, v in counts.items() if v}, 'maxwarn': groups,
                'handler_level': hl}
        if nontrivial:
            nth.add(harness.h(desc))
            if sample is None:
                sample = desc
        if not ok:
            return {'verdict': 'violated', 'key': key, 'what': 'warnings left differ from the stated arithmetic (%s)'
                    % detail['kind'], 'witness': {'case': desc, 'detail': detail}, 'hits': hits,
                    'features': feats, 'nontrivial': True, 'hash': harness.h(desc)}
    return {'verdict': 'held', 'hits': hits, 'features': feats, 'nontrivial': bool(nth), 'nt_hashes': sorted(nth),
            'sample': sample}
