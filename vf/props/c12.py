"""C12 - editing a molecule keeps atoms, bonds and interactions consistent.

Events : the complete observable state (nodes+attributes, edges, interaction table) of EVERY molecule of a pool
         after EVERY operation of a random edit history, plus the correspondence returned by merge_molecule.
Oracle : shadow model advanced by the documented meaning of each operation; referential-integrity invariant;
         merge post-condition checked directly on the observed before/after states.
"""
import copy

from .. import harness, util

PROPERTY = 'C12'
LEVEL = 'exploration'
RULE = ('Random edit histories of 5-60 operations over a pool of 1-5 molecules: add_node (fresh high / fresh low / '
        'existing key), add_nodes_from, remove_node (random / highest), remove_nodes_from (list, set, tuple, one-shot '
        'iterator, live views of the molecule itself), add_edge, remove_edge, add_interaction (valid / unknown atom), add_or_replace_interaction, '
        'remove_interaction, remove_matching_interaction, copy, subgraph, merge_molecule (other molecule, copy of '
        'itself, Block.to_molecule output, a Block), make_edges_from_interaction_type, clear, MergeAllMolecules, MergeChains. '
        'After each operation every molecule of the pool (also sources of earlier copies/subgraphs) is compared with '
        'its shadow. Non-trivial history = >= 2 merges into the same molecule separated by a node addition or removal. '
        'distinct = distinct operation sequences. Also: the citation keys of the molecule (copies, subgraphs, add_or_replace with citations, merges); add_or_replace_interaction on absent/removed atoms; residue number and charge group 0 or negative, empty chain.')
ASSUMPTIONS = ['node keys are integers (merge_molecule numbers newcomers from an integer offset)',
               '"last atom" of the receiver = atom with the highest key; when that is not also the last inserted atom '
               'either reading is accepted',
               'copy/subgraph independence is checked for edits through the Molecule API and top-level node attributes',
               'order of nodes and of interactions within a type is not compared']
MIN_HITS = {'quick': 30000, 'thorough': 1500000}
CASE_TIMEOUT = 900
TYPES = ['bonds', 'angles', 'constraints', 'dihedrals']
ARITY = {'bonds': 2, 'angles': 3, 'constraints': 2, 'dihedrals': 4}


class Shadow:
    def __init__(self, nrexcl=1):
        self.nodes = {}
        self.edges = {}
        self.inter = {}
        self.nrexcl = nrexcl
        self.cit = {'vermouth'}          # the molecule's citation keys (molecule-level state that copies and subgraphs must own)
        self.changed_since_merge = False
        self.merges = 0
        self.nt = False

    def clone(self):
        return copy.deepcopy(self)

    def add_node(self, k, attrs):
        self.nodes.setdefault(k, {}).update(copy.deepcopy(attrs))

    def remove_node(self, k):
        del self.nodes[k]
        self.removed = (getattr(self, 'removed', []) + [k])[-20:]
        for e in [e for e in self.edges if k in e]:
            del self.edges[e]
        for t in list(self.inter):
            self.inter[t] = [i for i in self.inter[t] if k not in i[0]]
            if not self.inter[t]:
                del self.inter[t]

    def add_edge(self, u, v, attrs=None):
        for x in (u, v):
            self.nodes.setdefault(x, {})
        self.edges.setdefault(frozenset((u, v)), {}).update(attrs or {})

    def subgraph(self, keys):
        s = Shadow(self.nrexcl)
        s.cit = set(self.cit)
        ks = set(keys)
        for k in keys:
            s.nodes[k] = copy.deepcopy(self.nodes[k])
        s.edges = {e: dict(a) for e, a in self.edges.items() if e <= ks}
        for t, lst in self.inter.items():
            sel = [copy.deepcopy(i) for i in lst if all(a in ks for a in i[0])]
            if sel:
                s.inter[t] = sel
        return s


def snapshot(mol):
    """Observable state of a real molecule, as plain data."""
    nodes = {k: dict(d) for k, d in mol.nodes(data=True)}
    edges = {frozenset((u, v)): dict(d) for u, v, d in mol.edges(data=True)}
    inter = {}
    for t, lst in mol.interactions.items():
        if lst:
            inter[t] = [(tuple(i.atoms), tuple(i.parameters), tuple(sorted((k, repr(v)) for k, v in i.meta.items())))
                        for i in lst]
    return nodes, edges, inter


def shadow_state(s):
    inter = {t: [(tuple(a), tuple(p), tuple(sorted((k, repr(v)) for k, v in m.items()))) for a, p, m in lst]
             for t, lst in s.inter.items() if lst}
    return s.nodes, s.edges, inter


def compare(mol, s):
    nodes, edges, inter = snapshot(mol)
    if set(getattr(mol, 'citations', ())) != s.cit:
        return ('citations-differ', {'observed': sorted(mol.citations), 'expected': sorted(s.cit)})
    for t, lst in inter.items():
        for atoms, _, _ in lst:
            missing = [a for a in atoms if a not in nodes]
            if missing:
                return ('dangling-interaction', {'type': t, 'atoms': atoms, 'missing': missing})
    en, ee, ei = shadow_state(s)
    if nodes != en:
        d = {'only_real': sorted(set(nodes) - set(en))[:6], 'only_model': sorted(set(en) - set(nodes))[:6],
             'attr_diff': [(k, nodes[k], en[k]) for k in nodes if k in en and nodes[k] != en[k]][:3]}
        return ('nodes-differ', d)
    if edges != ee:
        return ('edges-differ', {'only_real': [sorted(e) for e in set(edges) - set(ee)][:6],
                                 'only_model': [sorted(e) for e in set(ee) - set(edges)][:6]})
    if {t: sorted(l, key=repr) for t, l in inter.items()} != {t: sorted(l, key=repr) for t, l in ei.items()}:
        d = {}
        for t in set(inter) | set(ei):
            a, b = list(inter.get(t, [])), list(ei.get(t, []))
            for x in list(a):
                if x in b:
                    a.remove(x)
                    b.remove(x)
            if a or b:
                d[t] = {'only_real': a[:4], 'only_model': b[:4]}
        return ('interactions-differ', d)
    return None


def check_merge(before, after, newcomer, corr, recv_order):
    """Merge post-condition, observed directly. before/after/newcomer are snapshots. -> (problem, resid_off, cg_off)"""
    bn, be, bi = before
    an, ae, ai = after
    nn, ne, ni = newcomer
    if set(corr) != set(nn):
        return ('merge/correspondence-domain', {'corr': corr}), None
    vals = list(corr.values())
    if len(set(vals)) != len(vals):
        return ('merge/correspondence-not-injective', {'corr': corr}), None
    stale = [v for v in vals if v in bn]
    if stale:
        return ('merge/overwrites-existing-atom', {'reused_keys': stale[:6], 'corr': corr}), None
    if len(an) != len(bn) + len(nn):
        return ('merge/atom-count', {'before': len(bn), 'newcomer': len(nn), 'after': len(an)}), None
    for k, d in bn.items():
        if an.get(k) != d:
            return ('merge/existing-atom-changed', {'key': k, 'before': d, 'after': an.get(k)}), None
    for e, d in be.items():
        if ae.get(e) != d:
            return ('merge/existing-edge-lost', {'edge': sorted(e)}), None
    for t, lst in bi.items():
        rest = list(ai.get(t, []))
        for i in lst:
            if i not in rest:
                return ('merge/existing-interaction-lost', {'type': t, 'interaction': i}), None
            rest.remove(i)
    for e, d in ne.items():
        u, v = tuple(e) if len(e) == 2 else (list(e)[0], list(e)[0])
        if ae.get(frozenset((corr[u], corr[v]))) != d:
            return ('merge/newcomer-edge-lost', {'edge': sorted(e)}), None
    if len(ae) != len(be) + len(ne):
        return ('merge/edge-count', {'before': len(be), 'newcomer': len(ne), 'after': len(ae)}), None
    for t, lst in ni.items():
        rest = [i for i in ai.get(t, [])]
        for i in bi.get(t, []):
            rest.remove(i)
        for atoms, par, meta in lst:
            m = (tuple(corr[a] for a in atoms), par, meta)
            if m not in rest:
                return ('merge/newcomer-interaction-lost', {'type': t, 'interaction': m}), None
            rest.remove(m)
        if rest:
            return ('merge/extra-interaction', {'type': t, 'extra': rest[:3]}), None
    offs = set()
    for k, d in nn.items():
        a = an[corr[k]]
        offs.add((a.get('resid') - d.get('resid', 1), a.get('charge_group') - d.get('charge_group', 1)))
        rest_new = {x: y for x, y in a.items() if x not in ('resid', 'charge_group')}
        rest_old = {x: y for x, y in d.items() if x not in ('resid', 'charge_group')}
        if rest_new != rest_old:
            return ('merge/newcomer-attributes-changed', {'key': k, 'before': d, 'after': a}), None
    if len(offs) > 1:
        return ('merge/offset-not-uniform', {'offsets': sorted(offs)}), None
    if offs:
        off = offs.pop()
        if not bn:
            allowed = {(0, 0)}
        else:
            hi = max(bn)
            allowed = {(bn[hi].get('resid', 1), bn[hi].get('charge_group', 1))}
            last = recv_order[-1]
            allowed.add((bn[last].get('resid', 1), bn[last].get('charge_group', 1)))
        if off not in allowed:
            return ('merge/offset-not-from-last-atom', {'offset': off, 'allowed': sorted(allowed)}), None
        return None, off
    return None, (0, 0)


def apply_merge_to_shadow(s, other, corr, off):
    for k, d in other.nodes.items():
        a = copy.deepcopy(d)
        a['resid'] = a.get('resid', 1) + off[0]
        a['charge_group'] = a.get('charge_group', 1) + off[1]
        s.nodes[corr[k]] = a
    for e, d in other.edges.items():
        s.edges[frozenset(corr[x] for x in e)] = dict(d)
    for t, lst in other.inter.items():
        for atoms, par, meta in lst:
            s.inter.setdefault(t, []).append([tuple(corr[a] for a in atoms), copy.deepcopy(par), copy.deepcopy(meta)])


def new_attrs(rnd):
    a = {'atomname': rnd.choice(['BB', 'SC1', 'CA', 'N', 'O']), 'resname': rnd.choice(['ALA', 'GLY', 'LYS']),
         'resid': rnd.choice([0, 0, -2]) if rnd.random() < 0.15 else rnd.randint(1, 9),
         'charge_group': 0 if rnd.random() < 0.1 else rnd.randint(1, 9), 'chain': rnd.choice(['A', 'B', 'A', 'B', ''])}
    if rnd.random() < 0.1:
        del a['resid']
    if rnd.random() < 0.1:
        del a['charge_group']
    return a


def run_history(rnd, nops, b):
    """Returns (problem or None, ops log)."""
    import networkx as nx
    from vermouth.forcefield import ForceField
    from vermouth.molecule import Block, Interaction, Molecule
    from vermouth.processors.merge_all_molecules import MergeAllMolecules
    from vermouth.processors.merge_chains import MergeChains
    from vermouth.system import System
    ff = ForceField(name='verif_c12')
    pool = []   # [mol, shadow]
    log = []

    def fresh_mol():
        m = Molecule(force_field=ff, nrexcl=1)
        s = Shadow(1)
        n = rnd.randint(0, 6)
        start = rnd.choice([0, 1, 5])
        keys = list(range(start, start + n)) if rnd.random() < 0.7 else rnd.sample(range(40), n)
        bulk = rnd.random() < 0.3
        items = [(k, new_attrs(rnd)) for k in keys]
        if bulk:
            m.add_nodes_from(copy.deepcopy(items))
        else:
            for k, a in items:
                m.add_node(k, **copy.deepcopy(a))
        for k, a in items:
            s.add_node(k, a)
        log.append(['new', keys, 'bulk' if bulk else 'single'])
        return [m, s]

    pool.append(fresh_mol())
    if rnd.random() < 0.5:
        pool.append(fresh_mol())

    def verify(tag):
        for idx, (m, s) in enumerate(pool):
            p = compare(m, s)
            b.hits += 1
            if p:
                return (p[0], {'after_op': tag, 'molecule_index': idx, 'detail': p[1]})
        return None

    p = verify('init')
    if p:
        return p, log
    for step in range(nops):
        idx = rnd.randrange(len(pool))
        m, s = pool[idx]
        keys = list(s.nodes)
        op = rnd.choice(['add_node', 'add_node', 'add_existing', 'add_nodes_from', 'remove_node', 'remove_highest',
                         'remove_nodes_from', 'add_edge', 'add_edge', 'remove_edge', 'add_interaction',
                         'add_interaction', 'add_interaction_bad', 'add_or_replace', 'add_or_replace_bad', 'remove_interaction',
                         'remove_interaction_bad', 'remove_matching', 'copy', 'subgraph', 'merge', 'merge', 'merge',
                         'merge_block', 'make_edges', 'merge_all', 'merge_chains', 'set_attr', 'set_attr', 'clear'])
        entry = [op, idx]
        try:
            if op == 'add_node':
                hi = max(keys) if keys else -1
                r = rnd.random()
                k = hi + 1 if r < 0.5 else (hi + rnd.randint(2, 30) if r < 0.8 else rnd.choice([x for x in range(-5, hi + 40) if x not in s.nodes]))
                a = new_attrs(rnd)
                m.add_node(k, **copy.deepcopy(a))
                s.add_node(k, a)
                s.changed_since_merge = True
                entry.append(k)
                b.feat('op_add_node')
            elif op == 'add_existing' and keys:
                k = rnd.choice(keys)
                a = {'atomname': 'X%d' % step}
                m.add_node(k, **a)
                s.add_node(k, a)
                s.changed_since_merge = True
                entry.append(k)
                b.feat('op_add_node_existing_key')
            elif op == 'set_attr' and keys:
                k = rnd.choice(keys)
                a, v = rnd.choice([('resid', rnd.randint(1, 30)), ('atomname', 'Z%d' % step), ('extra', step)])
                m.nodes[k][a] = v
                s.nodes[k][a] = v
                entry += [k, a, v]
                b.feat('op_set_node_attribute')
            elif op == 'add_nodes_from':
                hi = max(keys) if keys else -1
                ks = [hi + 1 + i for i in range(rnd.randint(1, 4))] if rnd.random() < 0.6 else \
                    rnd.sample([x for x in range(hi + 60) if x not in s.nodes], rnd.randint(1, 3))
                items = [(k, new_attrs(rnd)) for k in ks]
                m.add_nodes_from(copy.deepcopy(items))
                for k, a in items:
                    s.add_node(k, a)
                s.changed_since_merge = True
                entry.append(ks)
                b.feat('op_add_nodes_from')
            elif op in ('remove_node', 'remove_highest') and keys:
                k = max(keys) if op == 'remove_highest' else rnd.choice(keys)
                m.remove_node(k)
                s.remove_node(k)
                s.changed_since_merge = True
                entry.append(k)
                b.feat('op_' + op)
            elif op == 'remove_nodes_from' and keys:
                ks = rnd.sample(keys, rnd.randint(1, min(3, len(keys))))
                if rnd.random() < 0.3:
                    ks.append(10 ** 6)  # absent node: silently ignored (networkx semantics)
                form = rnd.choice(['list', 'list', 'iterator', 'set', 'tuple', 'neighbours-view', 'neighbours-view', 'nodes-view'])
                if form == 'neighbours-view':
                    # "remove everything bonded to atom n": the argument is a live view of the molecule itself
                    n0 = rnd.choice(keys)
                    ks = [k for k in keys if frozenset((n0, k)) in s.edges and k != n0]
                    arg = m[n0]
                elif form == 'nodes-view':
                    if len(keys) > 4:
                        form, arg = 'list', list(ks)
                    else:
                        ks, arg = list(keys), m.nodes       # "remove all atoms" of a small molecule
                else:
                    arg = {'list': list, 'iterator': lambda x: iter(list(x)), 'set': set, 'tuple': tuple}[form](ks)
                m.remove_nodes_from(arg)
                for k in ks:
                    if k in s.nodes:
                        s.remove_node(k)
                s.changed_since_merge = True
                entry += [ks, form]
                b.feat('op_remove_nodes_from_' + form)
            elif op == 'clear' and len(pool) > 1 and rnd.random() < 0.3:
                # networkx' own way of removing every atom at once
                m.clear()
                s.nodes, s.edges, s.inter = {}, {}, {}
                s.changed_since_merge = True
                b.feat('op_clear')
            elif op == 'add_edge' and len(keys) >= 2:
                u, v = rnd.sample(keys, 2)
                a = {'distance': round(rnd.random(), 3)} if rnd.random() < 0.3 else {}
                m.add_edge(u, v, **a)
                s.add_edge(u, v, a)
                entry += [u, v]
                b.feat('op_add_edge')
            elif op == 'remove_edge' and s.edges:
                e = rnd.choice(sorted(s.edges, key=sorted))
                u, v = sorted(e)
                m.remove_edge(u, v)
                del s.edges[e]
                entry += [u, v]
                b.feat('op_remove_edge')
            elif op in ('add_interaction', 'add_or_replace') and keys:
                t = rnd.choice(TYPES)
                n = ARITY[t]
                if len(keys) < n:
                    continue
                atoms = tuple(rnd.sample(keys, n))
                if s.inter.get(t) and rnd.random() < 0.4:
                    atoms = tuple(rnd.choice(s.inter[t])[0])
                par = [str(rnd.randint(1, 9)), '%.2f' % rnd.random()]
                meta = {'version': rnd.randint(1, 2)} if rnd.random() < 0.3 else {}
                if rnd.random() < 0.2:
                    meta['comment'] = 'c%d' % step
                if op == 'add_interaction':
                    m.add_interaction(t, atoms, list(par), meta=dict(meta))
                    s.inter.setdefault(t, []).append([atoms, par, meta])
                else:
                    cit = {'ref%d' % step} if rnd.random() < 0.3 else None
                    m.add_or_replace_interaction(t, atoms, list(par), meta=dict(meta), citations=cit)
                    if cit:
                        s.cit |= cit
                        b.feat('op_add_or_replace_with_citation')
                    for i in s.inter.setdefault(t, []):
                        if i[0] == atoms and i[2].get('version', 0) == meta.get('version', 0):
                            i[1], i[2] = par, meta
                            break
                    else:
                        s.inter[t].append([atoms, par, meta])
                entry += [t, atoms, meta]
                b.feat('op_' + op)
            elif op == 'add_interaction_bad' and keys:
                atoms = (rnd.choice(keys), 10 ** 6 + step)
                try:
                    m.add_interaction('bonds', atoms, ['1'])
                    return ('unknown-atom-accepted', {'atoms': atoms}), log + [entry]
                except KeyError:
                    pass
                b.feat('op_add_interaction_unknown_atom')
            elif op == 'add_or_replace_bad' and keys:
                # an atom that is not (or no longer) there; existing interaction on the other atoms or not
                t = rnd.choice(TYPES)
                n = ARITY[t]
                if len(keys) < n - 1:
                    continue
                gone = [k for k in getattr(s, 'removed', []) if k not in s.nodes]
                absent = rnd.choice(gone) if gone and rnd.random() < 0.7 else 10 ** 6 + step
                atoms = rnd.sample(keys, n - 1)
                atoms.insert(rnd.randrange(n), absent)
                atoms = tuple(atoms)
                try:
                    m.add_or_replace_interaction(t, atoms, ['1', '0.5'], meta={})
                except KeyError:
                    pass
                if any(tuple(i.atoms) == atoms for i in m.interactions.get(t, [])):
                    return ('unknown-atom-accepted', {'type': t, 'atoms': atoms, 'via': 'add_or_replace_interaction',
                                                      'absent': absent}), log + [entry + [t, atoms]]
                entry += [t, atoms]
                b.feat('op_add_or_replace_unknown_atom')
            elif op == 'remove_interaction' and s.inter:
                t = rnd.choice(sorted(s.inter))
                i = rnd.choice(s.inter[t])
                ver = i[2].get('version', 0)
                m.remove_interaction(t, tuple(i[0]), version=ver)
                for j, x in enumerate(s.inter[t]):
                    if x[0] == i[0] and x[2].get('version', 0) == ver:
                        del s.inter[t][j]
                        break
                if not s.inter[t]:
                    del s.inter[t]
                entry += [t, i[0], ver]
                b.feat('op_remove_interaction')
            elif op == 'remove_interaction_bad' and keys:
                try:
                    m.remove_interaction('bonds', (10 ** 6, 10 ** 6 + 1))
                    return ('absent-interaction-removed', {}), log + [entry]
                except KeyError:
                    pass
                b.feat('op_remove_interaction_absent')
            elif op == 'remove_matching' and s.inter:
                t = rnd.choice(sorted(s.inter))
                i = rnd.choice(s.inter[t])
                tmpl = Interaction(atoms=tuple(i[0]), parameters=[], meta={})
                m.remove_matching_interaction(t, tmpl)
                for j, x in enumerate(s.inter[t]):
                    if x[0] == i[0]:
                        del s.inter[t][j]
                        break
                if not s.inter[t]:
                    del s.inter[t]
                entry += [t, i[0]]
                b.feat('op_remove_matching_interaction')
            elif op == 'copy' and len(pool) < 5:
                pool.append([m.copy(), s.clone()])
                b.feat('op_copy')
            elif op == 'subgraph' and keys and len(pool) < 5:
                ks = rnd.sample(keys, rnd.randint(1, len(keys)))
                if rnd.random() < 0.3 and len(ks) < len(keys):
                    # a selection that mentions atoms more than once (overlapping pieces concatenated), often exactly as long
                    # as the molecule without covering it
                    extra = [rnd.choice(ks) for _ in range(len(keys) - len(ks) if rnd.random() < 0.6 else rnd.randint(1, 3))]
                    ks = ks + extra
                    rnd.shuffle(ks)
                    b.feat('op_subgraph_selection_with_repeats')
                pool.append([m.subgraph(ks), s.subgraph(ks)])
                entry.append(ks)
                b.feat('op_subgraph')
            elif op in ('merge', 'merge_block'):
                if op == 'merge_block':
                    blk = Block(force_field=ff, nrexcl=1)
                    blk.name = 'BLK'
                    names = ['B%d' % i for i in range(rnd.randint(1, 4))]
                    os_ = Shadow(1)
                    for i, nme in enumerate(names):
                        a = {'atomname': nme, 'resname': 'BLK', 'resid': 1, 'charge_group': i + 1, 'atype': 'P'}
                        blk.add_atom(dict(a))
                        os_.add_node(nme, a)
                    for x, y in zip(names, names[1:]):
                        blk.add_edge(x, y)
                        os_.add_edge(x, y)
                        blk.add_interaction('bonds', (x, y), ['1', '0.3'])
                        os_.inter.setdefault('bonds', []).append([(x, y), ['1', '0.3'], {}])
                    if rnd.random() < 0.5:
                        other = blk.to_molecule(atom_offset=rnd.choice([0, 3]))
                        os2 = Shadow(1)
                        base = min(other.nodes) if len(other) else 0
                        cmap = {nme: base + i for i, nme in enumerate(names)}
                        for nme in names:
                            os2.add_node(cmap[nme], os_.nodes[nme])
                        for e in os_.edges:
                            os2.add_edge(*[cmap[x] for x in e])
                        for t, lst in os_.inter.items():
                            os2.inter[t] = [[tuple(cmap[a] for a in at), pa, me] for at, pa, me in lst]
                        pchk = compare(other, os2)
                        b.hits += 1
                        if pchk:
                            return ('to_molecule/' + pchk[0], {'detail': pchk[1]}), log + [entry]
                        os_ = os2
                        b.feat('op_merge_block_to_molecule')
                    else:
                        other = blk
                        b.feat('op_merge_block')
                elif len(pool) > 1 and rnd.random() < 0.7:
                    j = rnd.choice([x for x in range(len(pool)) if x != idx])
                    other, os_ = pool[j]
                    entry.append(j)
                    b.feat('op_merge_other')
                else:
                    other, os_ = m.copy(), s.clone()
                    b.feat('op_merge_self_copy')
                before = copy.deepcopy(snapshot(m))
                newcomer = copy.deepcopy(snapshot(other))
                order = list(m.nodes)
                corr = m.merge_molecule(other)
                after = snapshot(m)
                b.hits += 1
                prob, off = check_merge(before, after, newcomer, dict(corr), order)
                if prob:
                    return (prob[0], {'op': entry, 'detail': prob[1], 'receiver_keys_before': order,
                                      'newcomer_keys': list(newcomer[0])}), log + [entry]
                ambiguous = bool(order) and max(order) != order[-1]
                if ambiguous:
                    b.feat('merge_last_atom_ambiguous')
                if s.merges and s.changed_since_merge:
                    s.nt = True
                    b.feat('merge_after_edit_following_merge')
                apply_merge_to_shadow(s, os_, dict(corr), off)
                s.cit |= set(os_.cit)
                s.merges += 1
                s.changed_since_merge = False
            elif op == 'make_edges' and s.inter:
                t = rnd.choice(sorted(s.inter))
                m.make_edges_from_interaction_type(t)
                for atoms, _, meta in s.inter[t]:
                    if meta.get('edge', True):
                        for u, v in zip(atoms[:-1], atoms[1:]):
                            s.add_edge(u, v)
                entry.append(t)
                b.feat('op_make_edges_from_interaction_type')
            elif op in ('merge_all', 'merge_chains') and len(pool) >= 2 and all(len(x[1].nodes) for x in pool):
                system = System(force_field=ff)
                snaps = [copy.deepcopy(snapshot(x[0])) for x in pool]
                orders = [list(x[0].nodes) for x in pool]
                for x in pool:
                    system.add_molecule(x[0])
                if op == 'merge_all':
                    MergeAllMolecules().run_system(system)
                else:
                    MergeChains(all_chains=True).run_system(system)
                if len(system.molecules) != 1:
                    return ('processor/molecule-count', {'n': len(system.molecules)}), log + [entry]
                res = system.molecules[0]
                rn, re_, ri = snapshot(res)
                b.hits += 1
                tot_n = sum(len(x[0]) for x in snaps)
                tot_e = sum(len(x[1]) for x in snaps)
                tot_i = sum(len(l) for x in snaps for l in x[2].values())
                got_i = sum(len(l) for l in ri.values())
                if (len(rn), len(re_), got_i) != (tot_n, tot_e, tot_i):
                    return ('processor/conservation', {'op': op, 'atoms': [len(rn), tot_n], 'edges': [len(re_), tot_e],
                                                       'interactions': [got_i, tot_i]}), log + [entry]
                for t, lst in ri.items():
                    for atoms, _, _ in lst:
                        if any(a not in rn for a in atoms):
                            return ('dangling-interaction', {'after': op}), log + [entry]
                # atom names in order are conserved
                want = [d.get('atomname') for x in snaps for d in x[0].values()]
                if [d.get('atomname') for d in rn.values()] != want:
                    return ('processor/atom-order', {'op': op}), log + [entry]
                # continue with the merged molecule only; rebuild its shadow from the observation
                s2 = Shadow(1)
                for k, d in rn.items():
                    s2.nodes[k] = copy.deepcopy(d)
                s2.edges = copy.deepcopy(re_)
                s2.cit = set().union(*[x[1].cit for x in pool])
                for t, lst in ri.items():
                    s2.inter[t] = [[a, list(p), {k: eval(v) for k, v in me}] for a, p, me in lst]
                pool[:] = [[res, s2]]
                b.feat('op_' + op)
            else:
                continue
        except Exception as e:  # the operation was valid by construction
            if not harness.from_repo(e):
                raise         # an error of the harness/model is never a violation
            import traceback
            return ('exception/%s/%s' % (op, type(e).__name__),
                    {'op': entry, 'error': repr(e), 'trace': traceback.format_exc()[-800:],
                     'keys': keys[:40]}), log + [entry]
        log.append(entry)
        p = verify(entry)
        if p:
            return p, log
    nt = any(x[1].nt for x in pool)
    return None, log, nt


def cases(tier, seed):
    nb, per = (32, 90) if tier == 'quick' else (128, 1600)
    return [{'seed': seed, 'batch': b, 'n': per} for b in range(nb)]


def classify(kind, detail):
    d = detail.get('detail', {}) if isinstance(detail, dict) else {}
    op = detail.get('op') or detail.get('after_op') if isinstance(detail, dict) else None
    opname = op[0] if isinstance(op, list) and op else ''
    if kind.startswith('exception/merge') and 'KeyError' in kind:
        return 'merge/stale-max-node'
    if kind in ('merge/overwrites-existing-atom', 'merge/offset-not-from-last-atom'):
        return 'merge/stale-max-node'
    if kind == 'dangling-interaction' and opname == 'remove_nodes_from' and op[-1] == 'iterator':
        return 'remove_nodes_from/iterator'
    if kind in ('interactions-differ',) and opname == 'remove_nodes_from' and op[-1] == 'iterator':
        return 'remove_nodes_from/iterator'
    return kind


def run_case(params):
    rnd = harness.rng('C12', params['seed'], params['batch'])
    b = harness.Batch()
    for j in range(params['n']):
        nops = rnd.randint(5, 60)
        res = run_history(rnd, nops, b)
        problem, log = res[0], res[1]
        if problem:
            key = classify(problem[0], problem[1])
            b.violation(key, 'edit history leaves the molecule inconsistent (%s)' % problem[0],
                        {'history_index': j, 'problem': problem[0], 'detail': problem[1], 'operations': log[-25:]})
        elif res[2]:
            b.nontrivial([e[0] for e in log] + [harness.h(log)], {'operations': log[:40]})
    return b.result()
