"""C07 - no output from a run with unwaived warnings; existing files are never lost.

Events : CPython audit events (open / os.rename / os.remove / shutil.move / shutil.copyfile ...) recorded in the process
         under test, directory snapshots (name -> bytes) of the destination directory after every operation, exit code and
         directory listing of the real CLI.
Oracle : sequential file-system model (pending table: path -> first mode, buffer); deferral / discard / finalisation
         post-conditions; for every explored history the complete set of crash points of finalisation is enumerated
         (process death by os._exit at the k-th audit event, k = 0..N) and every pre-existing file must survive under its
         own or a '#name.N#' name; CLI gate expectations computed by the C08 reference arithmetic.
"""
import os
import shutil
import subprocess
import sys
import tempfile

from .. import harness, util

PROPERTY = 'C07'
LEVEL = 'fault_enumeration'
RULE = ('(a) random histories of 1-12 deferred-writer operations over 1-4 paths (some pre-existing, some with existing '
        '#name.N# backups): open w / a / w+ / r+ / a+, re-open of a pending path in w / a / r+ / r, interleaved writes, '
        'then write(), close(), or a second write(); the destination directory is snapshotted after every operation. '
        '(b) for a subset of histories every crash point of finalisation is enumerated: N+1 forked children, child k dies '
        '(os._exit) at the k-th file-system audit event of write(), plus N children in which the k-th event is aborted by an '
        'exception raised from the audit hook (KeyboardInterrupt / OSError ENOSPC alternating) so that any clean-up code of the '
        'writer runs; repeated with the temporary directory on another '
        'file system (/dev/shm) so that shutil.move copies. (c) every library writer with default arguments under the audit '
        'hook. (d) the real CLI in a scratch directory on inputs engineered to emit a known multiset of warnings x -maxwarn '
        'specifications, with pre-existing output files. Non-trivial history = >= 1 pre-existing destination and >= 2 '
        'pending files. distinct = distinct histories / (history, crash point) pairs / CLI scenarios. Also: up to three rounds (operations + write()/close()) on ONE writer object.')
ASSUMPTIONS = ['interruption model: process death between two Python-level file-system calls, or an exception delivered at such a '
               'call (plus a partially copied file when the '
               'temporary directory is on another file system); power loss / fsync ordering is out of reach',
               'a path first opened in append mode and later re-opened in write mode has no agreed meaning: not generated',
               'an append target counts as intact when its old bytes are a prefix of the file']
MIN_HITS = {'quick': 2500, 'thorough': 80000}
CASE_TIMEOUT = 1500
SHARD_TIMEOUT = {'quick': 900, 'thorough': 3400}

_AUDIT = {'on': False, 'log': [], 'countdown': None, 'installed': False, 'roots': ()}
INTERESTING = ('open', 'os.rename', 'os.remove', 'os.unlink', 'shutil.move', 'shutil.copyfile', 'shutil.copymode', 'shutil.copystat',
               'os.mkdir', 'os.truncate', 'os.link', 'os.symlink', 'os.chmod', 'os.utime', 'tempfile.mkstemp')


def _hook(event, args):
    if not _AUDIT['on'] or event not in INTERESTING:
        return
    paths = [str(a) for a in args[:2] if isinstance(a, (str, bytes, os.PathLike))]
    if not any(p.startswith(r) for p in paths for r in _AUDIT['roots']):
        return
    if _AUDIT['countdown'] is not None:
        if _AUDIT['countdown'] == 0:
            action = _AUDIT.get('action', 'exit')
            if action == 'exit':
                os._exit(77)
            # an interruption the program sees: the audited call is aborted by an exception and whatever clean-up code the
            # writer has runs (un-interrupted) afterwards
            _AUDIT['countdown'] = None
            _AUDIT['log'].append(('INTERRUPTED-BEFORE ' + event, paths, None))
            if action == 'kbd':
                raise KeyboardInterrupt()
            raise OSError(28, 'No space left on device (injected)')
        _AUDIT['countdown'] -= 1
    mode = args[1] if event == 'open' and len(args) > 1 else None
    _AUDIT['log'].append((event, paths, mode))


def install_hook():
    if not _AUDIT['installed']:
        sys.addaudithook(_hook)
        _AUDIT['installed'] = True


def snapshot(d):
    out = {}
    for name in sorted(os.listdir(d)):
        p = os.path.join(d, name)
        if os.path.isfile(p):
            with open(p, 'rb') as f:
                out[name] = f.read()
    return out


def fresh_writer(tmpdir):
    from vermouth import file_writer as fw
    w = fw.DeferredFileWriter()
    w.close()
    w.open_files.clear()
    w._tmpdir = tmpdir
    return w


# ------------------------------------------------------------------ (a) histories
def gen_history(rnd):
    npaths = rnd.randint(1, 4)
    paths = ['f%d.%s' % (i, rnd.choice(['itp', 'pdb', 'top'])) for i in range(npaths)]
    pre = {}
    for p in paths:
        if rnd.random() < 0.6:
            pre[p] = 'old-%s-%d\n' % (p, rnd.randrange(1000))
            for n in range(1, rnd.choice([0, 0, 1, 2, 3]) + 1):
                if rnd.random() < 0.85:           # occasionally a gap in the backup numbering
                    pre['#%s.%d#' % (p, n)] = 'backup-%s-%d\n' % (p, n)
    # a pre-existing destination may be a symbolic link to a file in another directory: the link is the destination (it is
    # what gets backed up and replaced), the directory it points into must never change
    links = [p for p in paths if p in pre and rnd.random() < 0.12]

    def gen_ops(existing, tag, nmax=12):
        ops = []
        pending = {}       # path -> first mode
        for i in range(rnd.randint(1, nmax)):
            p = rnd.choice(paths)
            if p not in pending:
                modes = ['w', 'w', 'w+', 'a', 'a+' if rnd.random() < 0.3 else 'a']
                if p in links:
                    modes = ['w', 'w', 'w+']        # appending through a link legitimately changes the link's target
                if p in existing:
                    modes.append('r+')
                m = rnd.choice(modes)
                pending[p] = m
            else:
                first = pending[p]
                if 'a' in first:
                    m = rnd.choice(['a', 'r'])           # never re-open an append target in write mode
                else:
                    m = rnd.choice(['w', 'a', 'r+', 'r', 'a'])
            text = ''.join('%s%d-%d\n' % (tag, i, j) for j in range(rnd.randint(0, 3)))
            ops.append({'op': 'open', 'path': p, 'mode': m, 'text': text})
        return ops, set(pending)
    ops, touched = gen_ops(set(pre), 't')
    end = rnd.choice(['write', 'write', 'write', 'close', 'write-write', 'close-write'])
    hist = {'pre': pre, 'ops': ops, 'end': end}
    if links:
        hist['links'] = links
    if rnd.random() < 0.35:
        # the same writer object serves further rounds: a rejected (discarded) or accepted run is followed by another one
        # to the same output names in the same process
        existing = set(pre) | (touched if end.startswith('write') else set())
        more = []
        for r in range(rnd.randint(1, 2)):
            ops2, touched2 = gen_ops(existing, 'r%d-' % r, nmax=6)
            end2 = rnd.choice(['write', 'write', 'close'])
            more.append({'ops': ops2, 'end': end2})
            if end2 == 'write':
                existing |= touched2
        hist['more'] = more
    return hist


def model_history(hist, ops=None, current=None):
    """-> (pending {path: {'first': mode, 'buf': str}}, reads expected per op index)"""
    pending = {}
    reads = {}
    current = hist['pre'] if current is None else current
    for i, op in enumerate(hist['ops'] if ops is None else ops):
        p, m, text = op['path'], op['mode'], op['text']
        if p not in pending:
            buf = current[p] if (m == 'r+') else ''
            pending[p] = {'first': m, 'buf': buf}
            if m == 'r+':
                pending[p]['buf'] = text + buf[len(text):]
            else:
                pending[p]['buf'] = buf + text
        else:
            e = pending[p]
            if m == 'r':
                reads[i] = e['buf']
            elif m == 'w':
                e['buf'] = text
            elif m == 'a':
                e['buf'] += text
            elif m == 'r+':
                e['buf'] = text + e['buf'][len(text):]
    return pending, reads


def expected_final(hist, pending, current=None):
    """Expected destination directory after write()."""
    d = dict(hist['pre'] if current is None else current)
    for p, e in pending.items():
        if 'a' in e['first']:
            d[p] = d.get(p, '') + e['buf']
        else:
            if p in d:
                n = 1
                while '#%s.%d#' % (p, n) in d:
                    n += 1
                d['#%s.%d#' % (p, n)] = d[p]
            d[p] = e['buf']
    return d


def run_history(hist, b, tmp_root=None):
    """Drive the real writer through the history in-process. -> problem | None"""
    install_hook()
    base = tempfile.mkdtemp(prefix='c07-')
    dest = os.path.join(base, 'dest')
    tmpd = tempfile.mkdtemp(prefix='c07tmp-', dir=tmp_root) if tmp_root else os.path.join(base, 'tmp')
    os.makedirs(dest)
    os.makedirs(tmpd, exist_ok=True)
    try:
        for name, text in hist['pre'].items():
            with open(os.path.join(dest, name), 'w') as f:
                f.write(text)
        store = os.path.join(base, 'store')
        os.makedirs(store)
        for name in hist.get('links', []):
            shutil.move(os.path.join(dest, name), os.path.join(store, name + '.target'))
            os.symlink(os.path.join(store, name + '.target'), os.path.join(dest, name))
        store_before = snapshot(store)
        w = fresh_writer(tmpd)
        rounds = [{'ops': hist['ops'], 'end': hist['end']}] + list(hist.get('more', []))
        for rno, rd in enumerate(rounds):
            p_ = run_round(hist, rd, rno, w, dest, tmpd, b)
            if not p_ and hist.get('links') and snapshot(store) != store_before:
                p_ = ('finalise/link-target-directory-changed', {'store_before': sorted(store_before), 'store_after': sorted(snapshot(store)),
                                                                 'links': hist['links']})
            if hist.get('links'):
                b.feat('histories_with_symlinked_destination')
            if p_:
                if rno:
                    p_ = ('later-round/' + p_[0], dict(p_[1], round=rno, rounds=[r_['end'] for r_ in rounds]))
                return p_
            if rno:
                b.feat('rounds_after_the_first_on_one_writer')
        return None
    finally:
        _AUDIT['on'] = False
        shutil.rmtree(base, ignore_errors=True)
        if tmp_root:
            shutil.rmtree(tmpd, ignore_errors=True)


def run_round(hist, rd, rno, w, dest, tmpd, b):
    if True:
        initial = snapshot(dest)
        current = {k: v.decode() for k, v in initial.items()}
        pending, reads = model_history(hist, rd['ops'], current)
        _AUDIT['roots'] = (dest,)
        _AUDIT['log'] = []
        _AUDIT['on'] = True
        try:
            for i, op in enumerate(rd['ops']):
                h = w.open(os.path.join(dest, op['path']), op['mode'])
                if op['mode'] == 'r':
                    got = h.read()
                    h.close()
                    if got != reads.get(i, None):
                        return ('deferral/read-through-handle', {'op': i, 'observed': got, 'expected': reads.get(i)})
                else:
                    h.write(op['text'])
                    h.close()
                b.hits += 1
                snap = snapshot(dest)
                if snap != initial:
                    return ('deferral/destination-touched-before-finalisation',
                            {'op': i, 'operation': op, 'changed': sorted(set(snap.items()) ^ set(initial.items()))[:4]})
            bad = [e for e in _AUDIT['log'] if e[0] != 'open' or (e[2] and any(c in str(e[2]) for c in 'wa+x'))]
            # r+ legitimately *reads* the destination (copy2) - reading is not a write
            bad = [e for e in bad if not (e[0] in ('shutil.copyfile', 'shutil.copymode', 'shutil.copystat') and e[1] and e[1][0].startswith(dest) and
                                          (len(e[1]) < 2 or not e[1][1].startswith(dest)))]
            if bad:
                return ('deferral/write-call-on-destination', {'events': [[e[0], e[1], str(e[2])] for e in bad[:4]]})
        finally:
            _AUDIT['on'] = False
        ends = rd['end'].split('-')
        state = initial
        for step, what in enumerate(ends):
            if what == 'write':
                w.write()
                b.hits += 1
                want = {k: v.encode() for k, v in (expected_final(hist, pending, current) if step == 0 else
                                                   {k: v.decode() for k, v in state.items()}).items()}
                got = snapshot(dest)
                if got != want:
                    diff = {k: [got.get(k, b'<absent>').decode(errors='replace')[:60], want.get(k, b'<absent>').decode()[:60]]
                            for k in set(got) | set(want) if got.get(k) != want.get(k)}
                    modes = {p: e['first'] for p, e in pending.items()}
                    key = 'finalise/append-plus-mode' if any(modes.get(k.strip('#').rsplit('.', 1)[0] if k.startswith('#') else k) == 'a+' for k in diff) else 'finalise/content'
                    return (key, {'observed_vs_expected': diff, 'first_modes': modes})
                state = got
                pending = {}
            else:
                w.close()
                b.hits += 1
                got = snapshot(dest)
                if got != state:
                    return ('discard/destination-changed', {'changed': sorted(set(got) ^ set(state))})
                pending = {}
            left = os.listdir(tmpd)
            if left:
                return ('temporaries-left-behind', {'after': what, 'files': left[:5]})
        return None


# ------------------------------------------------------------------ (a') byte fidelity and long backup series
def gen_bytes_case(rnd):
    enc = rnd.choice([None, None, 'utf-8', 'latin-1'])
    pieces = ['line %d\n' % rnd.randrange(100), 'x\r\ny', 'a\rb', '\r\n', 'tail without newline', '\n\n', ' \t\n']
    if enc:
        pieces += ['caf\xe9\n', '\xfc\xdf']
    text = ''.join(rnd.choice(pieces) for _ in range(rnd.randint(1, 5)))
    pre = None
    if rnd.random() < 0.75:
        pre = rnd.choice([b'old\n', b'old\r\nsecond\r\n', b'no newline at the end', b'\xe9\xe8 latin-1 bytes\n', b''])
    nback = rnd.choice([0, 0, 1, 2, 3, 9, 10, 11, 12, 13]) if pre is not None else 0
    gap = rnd.randint(1, nback) if nback and rnd.random() < 0.3 else None
    return {'name': rnd.choice(['g.top', 'out.pdb', 'molecule_0.itp']), 'mode': rnd.choice(['w', 'w', 'a', 'a', 'w+', 'a+']),
            'newline': rnd.choice([None, None, '', '\n']), 'encoding': enc, 'text': text,
            'pre': pre.decode('latin-1') if pre is not None else None, 'backups': nback, 'gap': gap}


def check_bytes(case, b):
    """One open - write - finalise: the destination holds exactly the bytes the handle was given (after the old bytes in append
    mode), the old file is kept byte for byte under the FIRST free backup name, every other file is unchanged."""
    work = tempfile.mkdtemp(prefix='c07b-')
    dest, tmpd = os.path.join(work, 'dest'), os.path.join(work, 'tmp')
    os.makedirs(dest)
    os.makedirs(tmpd)
    try:
        name = case['name']
        before = {}
        if case['pre'] is not None:
            before[name] = case['pre'].encode('latin-1')
            for n in range(1, case['backups'] + 1):
                if n != case['gap']:
                    before['#%s.%d#' % (name, n)] = ('backup %d\n' % n).encode()
        for k, v in before.items():
            with open(os.path.join(dest, k), 'wb') as f:
                f.write(v)
        w = fresh_writer(tmpd)
        kw = {}
        if case['newline'] is not None:
            kw['newline'] = case['newline']
        if case['encoding']:
            kw['encoding'] = case['encoding']
        h = w.open(os.path.join(dest, name), case['mode'], **kw)
        h.write(case['text'])
        h.close()
        new = case['text'].encode(case['encoding'] or 'utf-8')     # no newline translation on this platform for any of the settings
        if snapshot(dest) != before:
            return ('deferral/destination-touched-before-finalisation', {'case': case})
        w.write()
        b.hits += 1
        want = dict(before)
        if 'a' in case['mode']:
            want[name] = before.get(name, b'') + new
        else:
            if name in before:
                n = 1
                while '#%s.%d#' % (name, n) in before:
                    n += 1
                want['#%s.%d#' % (name, n)] = before[name]
            want[name] = new
        got = snapshot(dest)
        if got != want:
            diff = {k: [repr(got.get(k, '<absent>'))[:80], repr(want.get(k, '<absent>'))[:80]] for k in sorted(set(got) | set(want))
                    if got.get(k) != want.get(k)}
            key = 'finalise/bytes-appended' if 'a' in case['mode'] else \
                ('finalise/backup-name' if any(k.startswith('#') for k in diff) else 'finalise/bytes-written')
            return (key, {'observed_vs_expected': diff, 'mode': case['mode'], 'newline': case['newline'], 'encoding': case['encoding']})
        return None
    finally:
        shutil.rmtree(work, ignore_errors=True)


# ------------------------------------------------------------------ (b) crash enumeration
def crash_enumeration(hist, b, tmp_root=None):
    """Enumerate every crash point of finalisation for this history. -> (problem | None, n_points)"""
    install_hook()
    base = tempfile.mkdtemp(prefix='c07c-')
    dest = os.path.join(base, 'dest')
    tmpd = tempfile.mkdtemp(prefix='c07ctmp-', dir=tmp_root) if tmp_root else os.path.join(base, 'tmp')
    keep = os.path.join(base, 'keep')
    os.makedirs(dest)
    os.makedirs(tmpd, exist_ok=True)
    try:
        for name, text in hist['pre'].items():
            with open(os.path.join(dest, name), 'w') as f:
                f.write(text)
        pre_bytes = {k: v.encode() for k, v in hist['pre'].items()}
        w = fresh_writer(tmpd)
        pending, _ = model_history(hist)
        for op in hist['ops']:
            h = w.open(os.path.join(dest, op['path']), op['mode'])
            if op['mode'] == 'r':
                h.read()
            else:
                h.write(op['text'])
            h.close()
        saved_open = list(map(list, w.open_files))
        shutil.copytree(dest, os.path.join(keep, 'dest'))
        shutil.copytree(tmpd, os.path.join(keep, 'tmp'))

        def restore():
            for d, src in ((dest, os.path.join(keep, 'dest')), (tmpd, os.path.join(keep, 'tmp'))):
                for n in os.listdir(d):
                    os.remove(os.path.join(d, n))
                for n in os.listdir(src):
                    shutil.copy2(os.path.join(src, n), os.path.join(d, n))
            w.open_files.clear()
            w.open_files.extend(map(list, saved_open))

        def child(k, action='exit'):
            pid = os.fork()
            if pid == 0:
                try:
                    _AUDIT['roots'] = (dest, tmpd)
                    _AUDIT['log'] = []
                    _AUDIT['countdown'] = k
                    _AUDIT['action'] = action
                    _AUDIT['on'] = True
                    w.write()
                    _AUDIT['on'] = False
                    os._exit(0 if k is None else 50)      # 50: finished before the k-th event
                except BaseException:
                    interrupted = any(e[0].startswith('INTERRUPTED') for e in _AUDIT['log'])
                    os._exit(78 if interrupted else 66)
            _, status = os.waitpid(pid, 0)
            return os.waitstatus_to_exitcode(status)

        # count the events of an uninterrupted finalisation (in a child, so the parent state is untouched)
        r, wfd = os.pipe()
        pid = os.fork()
        if pid == 0:
            os.close(r)
            _AUDIT['roots'] = (dest, tmpd)
            _AUDIT['log'] = []
            _AUDIT['countdown'] = None
            _AUDIT['on'] = True
            try:
                w.write()
                n = len(_AUDIT['log'])
            except BaseException:
                n = -1
            _AUDIT['on'] = False
            os.write(wfd, str(n).encode())
            os._exit(0)
        os.close(wfd)
        os.waitpid(pid, 0)
        n_events = int(os.read(r, 32).decode() or -1)
        os.close(r)
        if n_events < 0:
            return ('finalise/exception', {}), 0
        modes = {p: e['first'] for p, e in pending.items()}
        points = [(k, 'exit') for k in range(n_events + 1)] + [(k, ('kbd', 'oserror')[k % 2]) for k in range(n_events)]
        for k, action in points:
            restore()
            code = child(k, action)
            b.hits += 1
            b.feat('interruption_' + {'exit': 'process_death', 'kbd': 'KeyboardInterrupt', 'oserror': 'OSError'}[action])
            if code == 66:
                return ('crash/child-raised', {'k': k, 'action': action}), k
            snap = snapshot(dest)
            for name, old in pre_bytes.items():
                ok = any(v == old for n, v in snap.items() if n == name or (n.startswith('#' + name + '.') and n.endswith('#')))
                if not ok and 'a' in modes.get(name, ''):
                    ok = snap.get(name, b'').startswith(old)
                if not ok:
                    return ('crash/pre-existing-file-lost', {'crash_point': k, 'of': n_events, 'file': name, 'interruption': action,
                                                             'directory_after': {n: v.decode(errors='replace')[:40] for n, v in snap.items()},
                                                             'first_modes': modes}), k
        return None, n_events + 1
    finally:
        _AUDIT['on'] = False
        _AUDIT['countdown'] = None
        shutil.rmtree(base, ignore_errors=True)
        if tmp_root:
            shutil.rmtree(tmpd, ignore_errors=True)


# ------------------------------------------------------------------ (c) library writers defer
def writers_defer(b):
    import numpy as np
    from vermouth.file_writer import DeferredFileWriter
    from vermouth.forcefield import ForceField
    from vermouth.gmx.gro import write_gro
    from vermouth.gmx.topology import Atomtype, NonbondParam, write_atomtypes, write_gmx_topology, write_nonbond_params
    from vermouth.molecule import Molecule
    from vermouth.pdb import write_pdb
    from vermouth.system import System
    install_hook()
    ff = ForceField(name='verif_c07')
    system = System(force_field=ff)
    system.meta['header'] = ['x']
    mol = Molecule(force_field=ff, nrexcl=1, meta={'moltype': 'mol_0'})
    for i in range(3):
        mol.add_node(i, atomname='B%d' % i, resname='ALA', resid=1, chain='A', atype='P1', charge_group=i + 1, charge=0.0, mass=72.0,
                     position=np.array([0.1 * i, 0, 0]))
    mol.add_edge(0, 1)
    system.add_molecule(mol)
    system.gmx_topology_params['atomtypes'].append(Atomtype(node=0, molecule=mol, sigma=0.0, epsilon=0.0, meta={}))
    system.gmx_topology_params['nonbond_params'].append(NonbondParam(atoms=('P1', 'P1'), sigma=0.5, epsilon=2.0, meta={}))
    base = tempfile.mkdtemp(prefix='c07w-')
    cwd = os.getcwd()
    w = fresh_writer(os.path.join(base, 'tmp'))
    os.makedirs(os.path.join(base, 'tmp'))
    dest = os.path.join(base, 'dest')
    os.makedirs(dest)
    writers = [('write_pdb', lambda: write_pdb(system, os.path.join(dest, 'o.pdb'))),
               ('write_gro', lambda: write_gro(system, os.path.join(dest, 'o.gro'))),
               ('write_atomtypes', lambda: write_atomtypes(system, os.path.join(dest, 'at.itp'))),
               ('write_nonbond_params', lambda: write_nonbond_params(system, os.path.join(dest, 'nb.itp'))),
               ('write_gmx_topology', lambda: write_gmx_topology(system, os.path.join(dest, 't.top'),
                                                                 itp_paths={'atomtypes': os.path.join(dest, 'a2.itp'),
                                                                            'nonbond_params': os.path.join(dest, 'n2.itp')}))]
    try:
        os.chdir(dest)
        for name, fn in writers:
            _AUDIT['roots'] = (dest,)
            _AUDIT['log'] = []
            _AUDIT['on'] = True
            try:
                fn()
            finally:
                _AUDIT['on'] = False
            b.hits += 1
            if os.listdir(dest):
                return ('writer-bypasses-deferral', {'writer': name, 'files': os.listdir(dest)})
            bad = [e for e in _AUDIT['log'] if e[0] != 'open' or (e[2] and any(c in str(e[2]) for c in 'wa+x'))]
            if bad:
                return ('writer-bypasses-deferral', {'writer': name, 'events': [[e[0], e[1]] for e in bad[:3]]})
        DeferredFileWriter().write()
        made = sorted(os.listdir(dest))
        if made != sorted(['o.pdb', 'o.gro', 'at.itp', 'nb.itp', 't.top', 'a2.itp', 'n2.itp', 'mol_0.itp']):
            return ('writers/finalisation-incomplete', {'files': made})
        return None
    finally:
        os.chdir(cwd)
        try:
            DeferredFileWriter().close()
        except Exception:
            pass
        shutil.rmtree(base, ignore_errors=True)


# ------------------------------------------------------------------ (d) CLI gate
def altloc_pdb(src, out, n_alt):
    """Copy src and give the first n_alt ATOM records an alternate location B duplicate."""
    with open(src) as f:
        lines = f.read().split('\n')
    res = []
    done = 0
    for l in lines:
        res.append(l)
        if l.startswith('ATOM') and done < n_alt:
            res.append(l[:16] + 'B' + l[17:])
            done += 1
    with open(out, 'w') as f:
        f.write('\n'.join(res))


def cli_scenarios(rnd, n):
    out = []
    for _ in range(n):
        n_alt = rnd.choice([0, 0, 1, 2, 3])
        flags = []
        counts = {}
        if n_alt:
            counts['pdb-alternate'] = n_alt
        if rnd.random() < 0.4:
            flags.append('-scfix')
            counts['general'] = counts.get('general', 0) + 1
        if rnd.random() < 0.3:
            flags.append('-ed')
            counts['missing-feature'] = counts.get('missing-feature', 0) + 1
        specs = []
        for _g in range(rnd.choice([0, 1, 1, 2])):
            g = []
            for _t in range(rnd.randint(1, 2)):
                r = rnd.random()
                occurring = sorted(counts)
                t = rnd.choice(occurring) if occurring and rnd.random() < 0.75 else rnd.choice(['pdb-alternate', 'general', 'missing-feature', 'unmapped-atom'])
                n_t = counts.get(t, 1)
                num = rnd.choice([0, 0, n_t - 1, n_t, n_t, n_t + 1, sum(counts.values()), sum(counts.values()) - 1, -1])
                if r < 0.35:
                    g.append(str(num))
                elif r < 0.55:
                    g.append(t)
                else:
                    g.append('%s:%d' % (t, num))
            specs.append(g)
        out.append({'n_alt': n_alt, 'flags': flags, 'counts': counts, 'maxwarn': specs, 'pre_existing': rnd.random() < 0.6,
                    'write_graph': rnd.random() < 0.2, 'error_ff': rnd.random() < 0.2})
    return out


ERROR_FF = '''[ modification ]
split-mod
[ atoms ]
BB {"replace": {"atype": "Q5"}}
SC1 {"replace": {"atype": "P2"}}
'''


def check_cli(sc, b):
    from . import c08
    work = tempfile.mkdtemp(prefix='c07cli-')
    ffs = None
    try:
        if sc.get('error_ff'):
            # a user force-field directory with a modification that is not one connected component: reading it logs a record at
            # ERROR level and the run carries on - a record above warning level that no allowance can waive
            ffs = tempfile.mkdtemp(prefix='c07ff-')
            os.makedirs(os.path.join(ffs, 'martini3001'))
            with open(os.path.join(ffs, 'martini3001', 'extra.ff'), 'w') as f:
                f.write(ERROR_FF)
        src = util.test_data_path('integration_tests/tier-0/mini-protein3_trp-cage/aa.pdb')
        altloc_pdb(src, os.path.join(work, 'in.pdb'), sc['n_alt'])
        if sc['pre_existing']:
            for n in ('out.pdb', 'topol.top', 'molecule_0.itp'):
                with open(os.path.join(work, n), 'w') as f:
                    f.write('precious old %s\n' % n)
        before = snapshot(work)
        cmd = [sys.executable, os.path.join(util.REPO, 'bin', 'martinize2'), '-f', 'in.pdb', '-x', 'out.pdb', '-o', 'topol.top', '-ff', 'martini3001'] + sc['flags']
        for g in sc['maxwarn']:
            cmd += ['-maxwarn'] + g
        if sc['write_graph']:
            cmd += ['-write-graph', 'graph.pdb']
        if ffs:
            cmd += ['-ff-dir', ffs]
        env = dict(os.environ, PYTHONPATH=util.REPO)
        r = subprocess.run(cmd, cwd=work, env=env, capture_output=True, text=True, timeout=900)
        b.hits += 1
        parsed = [[c08.my_parse(t) for t in g] for g in sc['maxwarn']]
        counts = {(30, t): n for t, n in sc['counts'].items()}
        if ffs:
            counts[(40, 'general')] = 1
            if 'not a single connected component' not in r.stderr:
                return 'engineering', {'error_record_planned': True, 'stderr': r.stderr[-600:]}
        lo, hi = c08.reference(counts, parsed)
        after = snapshot(work)
        produced = {k for k in after if k not in before or after[k] != before[k]}
        allowed_debug = {'graph.pdb'} if sc['write_graph'] else set()
        info = {'expected_left_range': [lo, hi], 'returncode': r.returncode, 'changed_files': sorted(produced)}
        # sanity of the engineered warning counts: the run reports them on stderr
        n_warn_lines = sum(1 for l in r.stderr.split('\n') if l.lstrip().startswith('WARNING'))
        if n_warn_lines != sum(sc['counts'].values()):
            return 'engineering', dict(info, warnings_seen=n_warn_lines, warnings_planned=sum(sc['counts'].values()), stderr=r.stderr[-600:])
        if lo != hi:
            return None, dict(info, undecided=True)
        if lo == 0:
            if r.returncode != 0:
                return ('gate/refused-although-all-warnings-waived', dict(info, stderr=r.stderr[-500:])), info
            for n in ('out.pdb', 'topol.top', 'molecule_0.itp'):
                if n not in after or after[n].startswith(b'precious'):
                    return ('gate/output-missing', dict(info, missing=n)), info
            if sc['pre_existing']:
                for n in ('out.pdb', 'topol.top', 'molecule_0.itp'):
                    if after.get('#%s.1#' % n) != before[n]:
                        return ('gate/existing-file-not-backed-up', dict(info, file=n)), info
        else:
            if r.returncode == 0:
                return ('gate/output-written-despite-unwaived-warnings', dict(info, maxwarn=sc['maxwarn'], counts=sc['counts'])), info
            if produced - allowed_debug:
                return ('gate/files-changed-by-refused-run', dict(info, maxwarn=sc['maxwarn'], counts=sc['counts'])), info
        return None, info
    finally:
        shutil.rmtree(work, ignore_errors=True)
        if ffs:
            shutil.rmtree(ffs, ignore_errors=True)


def cases(tier, seed):
    out = []
    nb, per = (16, 60) if tier == 'quick' else (64, 900)
    out += [{'kind': 'history', 'seed': seed, 'batch': b, 'n': per} for b in range(nb)]
    nb2, per2 = (8, 4) if tier == 'quick' else (48, 16)
    out += [{'kind': 'crash', 'seed': seed, 'batch': b, 'n': per2} for b in range(nb2)]
    out += [{'kind': 'writers'}]
    ncli = 16 if tier == 'quick' else 96
    out += [{'kind': 'cli', 'seed': seed, 'index': i} for i in range(ncli)]
    return out


def run_case(params):
    b = harness.Batch()
    kind = params['kind']
    if kind == 'history':
        rnd = harness.rng('C07h', params['seed'], params['batch'])
        for j in range(params['n']):
            b.total += 1
            hist = gen_history(rnd)
            tmp_root = '/dev/shm' if (rnd.random() < 0.3 and os.path.isdir('/dev/shm')) else None
            try:
                p = run_history(hist, b, tmp_root)
            except Exception as e:
                if not harness.from_repo(e):
                    raise         # an error of the harness/model is never a violation
                import traceback
                p = ('exception/%s' % type(e).__name__, {'error': repr(e), 'trace': traceback.format_exc()[-600:]})
            if p:
                b.violation(p[0], 'deferred writer violates its contract (%s)' % p[0], {'subcase': j, 'detail': p[1], 'history': hist})
                continue
            npend = len({o['path'] for o in hist['ops']})
            b.feat({'histories': 1, 'end_' + hist['end']: 1, 'tmp_on_other_filesystem': int(bool(tmp_root)),
                    'with_existing_backups': int(any(k.startswith('#') for k in hist['pre']))})
            if hist['pre'] and npend >= 2:
                b.nontrivial(hist, hist)
            # byte fidelity / long backup series, one small case per history
            bc = gen_bytes_case(rnd)
            b.total += 1
            try:
                p = check_bytes(bc, b)
            except Exception as e:
                if not harness.from_repo(e):
                    raise
                import traceback
                p = ('finalise/exception/%s' % type(e).__name__, {'error': repr(e), 'trace': traceback.format_exc()[-600:], 'mode': bc['mode'],
                                                                  'newline': bc['newline'], 'encoding': bc['encoding']})
            if p:
                b.violation(p[0], 'finalised bytes differ from what was written (%s)' % p[0], {'subcase': j, 'detail': p[1], 'case': bc})
            else:
                b.feat({'byte_cases': 1, 'byte_cases_ten_or_more_backups': int(bc['backups'] >= 10), 'byte_cases_carriage_returns': int('\r' in bc['text']),
                        'byte_cases_explicit_encoding': int(bool(bc['encoding']))})
    elif kind == 'crash':
        rnd = harness.rng('C07c', params['seed'], params['batch'])
        for j in range(params['n']):
            b.total += 1
            hist = gen_history(rnd)
            hist['end'] = 'write'
            tmp_root = '/dev/shm' if (j % 2 and os.path.isdir('/dev/shm')) else None
            p, npoints = crash_enumeration(hist, b, tmp_root)
            if p:
                b.violation(p[0], 'interrupted finalisation loses a file (%s)' % p[0], {'subcase': j, 'detail': p[1], 'history': hist,
                                                                                        'tmp_root': tmp_root})
                continue
            b.feat({'crash_histories': 1, 'crash_points_enumerated': npoints, 'crash_histories_other_filesystem': int(bool(tmp_root))})
            if hist['pre']:
                for k in range(npoints):
                    b.nontrivial([hist, k, tmp_root], {'history': hist, 'crash_points': npoints, 'tmp_root': tmp_root})
    elif kind == 'writers':
        b.total += 1
        p = writers_defer(b)
        if p:
            b.violation(p[0], 'a library writer does not defer (%s)' % p[0], {'detail': p[1]})
        else:
            b.feat('library_writers_checked', 5)
    else:
        rnd = harness.rng('C07cli', params['seed'], params['index'])
        fixed = [
            {'n_alt': 2, 'flags': [], 'counts': {'pdb-alternate': 2}, 'maxwarn': [['pdb-alternate:0']], 'pre_existing': True, 'write_graph': False},
            {'n_alt': 0, 'flags': ['-scfix'], 'counts': {'general': 1}, 'maxwarn': [['general:0'], ['missing-feature']], 'pre_existing': True, 'write_graph': False},
            {'n_alt': 2, 'flags': [], 'counts': {'pdb-alternate': 2}, 'maxwarn': [['1']], 'pre_existing': False, 'write_graph': True},
            {'n_alt': 1, 'flags': ['-ed'], 'counts': {'pdb-alternate': 1, 'missing-feature': 1}, 'maxwarn': [['pdb-alternate', 'missing-feature:1']],
             'pre_existing': True, 'write_graph': False},
            {'n_alt': 0, 'flags': [], 'counts': {}, 'maxwarn': [], 'pre_existing': True, 'write_graph': False},
            {'n_alt': 0, 'flags': [], 'counts': {}, 'maxwarn': [], 'pre_existing': True, 'write_graph': False, 'error_ff': True},
            {'n_alt': 1, 'flags': [], 'counts': {'pdb-alternate': 1}, 'maxwarn': [['5'], ['general']], 'pre_existing': True, 'write_graph': False,
             'error_ff': True},
        ]
        sc = fixed[params['index']] if params['index'] < len(fixed) else cli_scenarios(rnd, 1)[0]
        b.total += 1
        p, info = check_cli(sc, b)
        if p == 'engineering':
            b.inconclusive('warning-engineering-mismatch')
            rec = b.result()
            rec['why_detail'] = info
            return rec
        if p:
            b.violation(p[0], 'CLI gate (%s)' % p[0], {'scenario': sc, 'detail': p[1]})
        else:
            b.feat({'cli_runs': 1, 'cli_refused': int(info['returncode'] != 0), 'cli_accepted': int(info['returncode'] == 0),
                    'cli_with_preexisting_outputs': int(sc['pre_existing']),
                    'cli_with_unwaivable_error_record': int(bool(sc.get('error_ff')))})
            b.nontrivial(sc, {'cli': sc, 'observed': info})
    return b.result()
