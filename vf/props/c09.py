"""C09 - a particle sits at the weighted mean of the atoms it represents.

Events : the 'position' attribute of every particle after DoAverageBead.run_molecule, together with the
         particle's 'graph' (constituents) and 'mapping_weights'.
Oracle : exact weighted mean (math.fsum) over constituents that have a position; NaN iff their weights sum
         to zero; bounding box; equivariance under a random rigid motion (second real execution).
"""
import math

import numpy as np

from .. import harness, util

PROPERTY = 'C09'
LEVEL = 'exploration'
RULE = ('Batches of generated coarse-grained molecules: 1-6 particles, each with 0-12 constituent atoms drawn from a '
        'shared pool of positioned/unpositioned atoms (position absent or None), weights from {all ones, small '
        'integers with zeros, fractions, masses, wide range 1e-3..1e3, all tiny (multiples of 1e-9), all zero}, mapping_weights complete, partial '
        'or absent, centre weight configured through the force-field variable / explicitly / disabled, 2-D and 3-D, '
        'coordinate scale 1..1e4; plus particles produced by the real do_mapping on synthetic force fields. Every '
        'molecule is run twice (original and rigidly moved frame). Non-trivial particle = >= 2 positioned '
        'constituents with unequal effective weights and >= 1 constituent without position or with weight 0; '
        'distinct = distinct (constituent keys, weights, positions) hashes. Also: one processor object first run on a primer molecule whose force field configures the centre weight differently; coordinates stored as integer arrays.')
ASSUMPTIONS = ['weights are 0, multiples of 1e-9 or >= 1e-3; a sum counts as zero only when it is zero', 'tolerance 1e-9 x (1 + largest |coordinate|)']
MIN_HITS = {'quick': 20000, 'thorough': 800000}
CASE_TIMEOUT = 600
MASSES = [1.008, 12.011, 14.007, 15.999, 32.06, 0.0]


def rigid(rnd, dim):
    a = np.array([[rnd.gauss(0, 1) for _ in range(dim)] for _ in range(dim)])
    q, r = np.linalg.qr(a)
    q = q * np.sign(np.diag(r))
    if np.linalg.det(q) < 0:
        q[:, 0] = -q[:, 0]
    t = np.array([rnd.uniform(-50, 50) for _ in range(dim)])
    return q, t


def gen(rnd):
    dim = 3 if rnd.random() < 0.85 else 2
    scale = rnd.choice([1.0, 10.0, 100.0, 1e4])
    natoms = rnd.randint(1, 14)
    # coordinates on an integer lattice, stored as integer arrays (hand-built / API-built molecules): weights stay fractional
    intpos = rnd.random() < 0.12
    atoms = {}
    keys = rnd.sample(range(1000), natoms)
    for k in keys:
        d = {'atomname': 'A%d' % k, 'mass': rnd.choice(MASSES)}
        r = rnd.random()
        if r < 0.75:
            d['position'] = [rnd.randint(-int(min(scale, 100)), int(min(scale, 100))) for _ in range(dim)] if intpos else \
                [rnd.uniform(-scale, scale) for _ in range(dim)]
        elif r < 0.88:
            d['position'] = None
        atoms[k] = d
    parts = []
    for _ in range(rnd.randint(1, 6)):
        k = rnd.randint(0 if rnd.random() < 0.1 else 1, min(12, natoms))
        cons = rnd.sample(keys, k)
        style = rnd.choice(['ones', 'ints', 'ints', 'frac', 'wide', 'zero', 'zero_pos', 'tiny'])
        w = {}
        for c in cons:
            if style == 'ones':
                w[c] = 1
            elif style == 'ints':
                w[c] = rnd.choice([0, 1, 1, 2, 3])
            elif style == 'frac':
                w[c] = rnd.choice([0, 0.5, 1 / 3, 0.25, 1.0, 2 / 3])
            elif style == 'wide':
                w[c] = 10 ** rnd.uniform(-3, 3) if rnd.random() < 0.85 else 0
            elif style == 'zero':
                w[c] = 0
            elif style == 'tiny':
                # all weights of a particle far below 1 (a mapping normalised over a large number of atoms, weights given in
                # other units): their sum is not zero and the mean is as well defined as for weights around 1
                w[c] = rnd.choice([0, 1, 1, 2, 3]) * 1e-9
            else:
                w[c] = 0 if atoms[c].get('position') is not None else rnd.choice([0, 1, 2])
        mw = rnd.choice(['full', 'full', 'partial', 'absent'])
        if mw == 'partial':
            given = {c: w[c] for c in cons if rnd.random() < 0.6}
        elif mw == 'absent':
            given = None
        else:
            given = dict(w)
        parts.append({'cons': cons, 'given': given, 'has_graph': rnd.random() > 0.05,
                      'old_position': [rnd.uniform(-1, 1) for _ in range(dim)]})
    mode = rnd.choice(['ffvar', 'ffvar', 'none', 'none', 'disabled', 'explicit'])
    return {'dim': dim, 'atoms': atoms, 'parts': parts, 'mode': mode, 'intpos': intpos}


def build_and_run(case, transform=None):
    import networkx as nx
    from vermouth.forcefield import ForceField
    from vermouth.molecule import Molecule
    from vermouth.processors.average_beads import DoAverageBead
    ff = ForceField(name='verif_c09')
    if case['mode'] in ('ffvar', 'disabled'):
        ff.variables['center_weight'] = 'mass'
    mol = Molecule(force_field=ff)
    apos = {}
    for k, d in case['atoms'].items():
        p = d.get('position')
        if p is not None:
            p = np.array(p, dtype=int if (case.get('intpos') and transform is None) else float)
            if transform is not None:
                p = transform[0] @ p + transform[1]
        apos[k] = p
    for i, part in enumerate(case['parts']):
        attrs = {'atomname': 'P%d' % i, 'resid': 1, 'resname': 'X'}
        if part['has_graph']:
            g = nx.Graph()
            for c in part['cons']:
                d = {kk: vv for kk, vv in case['atoms'][c].items() if kk != 'position'}
                if 'position' in case['atoms'][c]:
                    d['position'] = apos[c]
                g.add_node(c, **d)
            attrs['graph'] = g
        else:
            attrs['position'] = np.array(part['old_position'])
        if part['given'] is not None:
            attrs['mapping_weights'] = dict(part['given'])
        mol.add_node(i * 3 + 7, **attrs)
    weight = {'ffvar': None, 'none': None, 'disabled': False, 'explicit': 'mass'}[case['mode']]
    proc = DoAverageBead(ignore_missing_graphs=True, weight=weight)
    if case.get('primed', len(case['atoms']) % 2 == 0):
        # one processor object handles molecules of several force fields in a row (as run_system does): before the molecule
        # under test it sees a molecule whose force field configures the centre weight differently
        ff0 = ForceField(name='verif_c09_primer')
        if case['mode'] == 'none':
            ff0.variables['center_weight'] = 'mass'
        elif case['mode'] == 'ffvar':
            ff0.variables['center_weight'] = 'primer_weight'
        m0 = Molecule(force_field=ff0)
        g0 = nx.Graph()
        g0.add_node(0, atomname='Q', mass=12.0, primer_weight=3.0, position=np.zeros(3))
        g0.add_node(1, atomname='R', mass=1.0, primer_weight=1.0, position=np.ones(3))
        m0.add_node(0, atomname='P', resid=1, resname='X', graph=g0)
        proc.run_molecule(m0)
    proc.run_molecule(mol)
    return [mol.nodes[i * 3 + 7].get('position') for i in range(len(case['parts']))]


def expected(case, part):
    """-> (mean or None if undefined, positioned constituents [(w, pos)])"""
    use_mass = case['mode'] in ('ffvar', 'explicit')
    items = []
    for c in part['cons']:
        a = case['atoms'][c]
        if a.get('position') is None:
            continue
        w = 1 if part['given'] is None else part['given'].get(c, 1)
        if use_mass:
            w = w * a['mass']
        items.append((w, a['position']))
    tot = math.fsum(w for w, _ in items)
    if not items or tot == 0:
        return None, items
    dim = case['dim']
    return [math.fsum(w * p[i] for w, p in items) / tot for i in range(dim)], items


def check_case(case, rnd):
    """-> list of problems, hits, nontrivial hashes, features"""
    feats = {}
    problems = []
    nth = []
    obs = build_and_run(case)
    R, t = rigid(rnd, case['dim'])
    obs2 = build_and_run(case, (R, t))
    hits = 0
    for i, part in enumerate(case['parts']):
        got = obs[i]
        if not part['has_graph']:
            hits += 1
            feats['particle_without_graph'] = feats.get('particle_without_graph', 0) + 1
            if got is None or not np.array_equal(np.asarray(got), np.asarray(part['old_position'])):
                problems.append(('no-graph-touched', i, got))
            continue
        exp, items = expected(case, part)
        hits += 1
        allc = [case['atoms'][c] for c in part['cons']]
        scale = 1 + max([abs(x) for _, p in items for x in p] or [0])
        tol = 1e-9 * scale
        got = np.asarray(got, dtype=float)
        if exp is None:
            feats['undefined_expected'] = feats.get('undefined_expected', 0) + 1
            if not (got.size and np.all(np.isnan(got))):
                problems.append(('should-be-nan', i, got.tolist()))
            if not np.all(np.isnan(np.asarray(obs2[i], dtype=float))):
                problems.append(('should-be-nan-moved', i))
            continue
        if got.shape != (case['dim'],) or np.any(np.isnan(got)):
            problems.append(('nan-or-shape', i, got.tolist(), exp))
            continue
        err = max(abs(got[j] - exp[j]) for j in range(case['dim']))
        if err > tol:
            problems.append(('mean', i, got.tolist(), exp))
        ws = [w for w, _ in items]
        if all(w >= 0 for w in ws):
            lo = [min(p[j] for w, p in items if True) for j in range(case['dim'])]
            hi = [max(p[j] for w, p in items if True) for j in range(case['dim'])]
            if any(got[j] < lo[j] - tol or got[j] > hi[j] + tol for j in range(case['dim'])):
                problems.append(('bbox', i, got.tolist(), lo, hi))
        moved = np.asarray(obs2[i], dtype=float)
        want = R @ np.array(exp) + t
        tol2 = 1e-9 * (1 + float(np.max(np.abs(want))) + scale)
        if moved.shape != want.shape or np.any(np.isnan(moved)) or float(np.max(np.abs(moved - want))) > tol2:
            problems.append(('equivariance', i, moved.tolist(), want.tolist()))
        unpos = sum(1 for a in allc if a.get('position') is None)
        zero = sum(1 for w in ws if w == 0)
        if unpos:
            feats['with_unpositioned'] = feats.get('with_unpositioned', 0) + 1
        if zero:
            feats['with_zero_weight'] = feats.get('with_zero_weight', 0) + 1
        if part['given'] is None:
            feats['weights_absent'] = feats.get('weights_absent', 0) + 1
        elif len(part['given']) < len(part['cons']):
            feats['weights_partial'] = feats.get('weights_partial', 0) + 1
        if case['mode'] in ('ffvar', 'explicit'):
            feats['centre_weight_mass'] = feats.get('centre_weight_mass', 0) + 1
        if len(items) >= 2 and len(set(ws)) > 1 and (unpos or zero):
            nth.append(harness.h([part['cons'], ws, [p for _, p in items]]))
    return problems, hits, nth, feats


def pipeline_check(rnd):
    """Particles produced by the real do_mapping (synthetic force fields of the C01 generator), then DoAverageBead.
    -> (problems, hits, nontrivial hashes)"""
    from vermouth.processors.average_beads import DoAverageBead
    from . import c01
    case, mol, out = c01.average_bead_probe(rnd)
    DoAverageBead().run_molecule(out)
    problems, hits, nth = [], 0, []
    for n, d in out.nodes(data=True):
        mw = d['mapping_weights']
        items = [(w, [float(x) for x in mol.nodes[k]['position']]) for k, w in mw.items() if mol.nodes[k].get('position') is not None]
        tot = math.fsum(w for w, _ in items)
        got = np.asarray(d.get('position'), dtype=float)
        hits += 1
        if not items or tot == 0:
            if not np.all(np.isnan(got)):
                problems.append(('pipeline/should-be-nan', n, got.tolist()))
            continue
        exp = [math.fsum(w * p[i] for w, p in items) / tot for i in range(3)]
        if got.shape != (3,) or np.any(np.isnan(got)) or max(abs(got[i] - exp[i]) for i in range(3)) > 1e-9:
            problems.append(('pipeline/mean', n, got.tolist(), exp, dict(mw)))
        if len(items) >= 2 and len({w for w, _ in items}) > 1 and len(items) < len(mw):
            nth.append(harness.h([sorted(mw.items()), exp]))
    return problems, hits, nth, case


def cases(tier, seed):
    nb, per = (32, 400) if tier == 'quick' else (128, 3500)
    out = [{'seed': seed, 'batch': b, 'n': per} for b in range(nb)]
    nb2, per2 = (8, 40) if tier == 'quick' else (32, 600)
    out += [{'seed': seed, 'batch': 1000 + b, 'n': per2, 'pipeline': True} for b in range(nb2)]
    return out


def run_case(params):
    rnd = harness.rng('C09', params['seed'], params['batch'])
    hits = 0
    feats = {}
    nth = set()
    sample = None
    if params.get('pipeline'):
        bt = harness.Batch()
        for j in range(params['n']):
            bt.total += 1
            try:
                with harness.sub_alarm(15):
                    problems, h_, nt, case = pipeline_check(rnd)
            except harness.CaseTimeout:
                bt.inconclusive('watchdog')
                continue
            bt.hits += h_
            bt.feat('particles_from_real_do_mapping', h_)
            for x in nt:
                bt.nontrivial(x, None)
            if problems:
                bt.violation(problems[0][0], 'particle position differs from the weighted mean (%s)' % problems[0][0],
                             {'subcase': j, 'problems': problems[:4], 'case': case})
        return bt.result()
    for j in range(params['n']):
        case = gen(rnd)
        problems, h_, nt, f = check_case(case, rnd)
        hits += h_
        for k, v in f.items():
            feats[k] = feats.get(k, 0) + v
        nth.update(nt)
        if nt and sample is None:
            sample = case
        if problems:
            kind = problems[0][0]
            return {'verdict': 'violated', 'key': kind, 'what': 'particle position differs from the weighted mean (%s)' % kind,
                    'witness': {'case': case, 'problems': problems[:5], 'subcase': j}, 'hits': hits, 'features': feats,
                    'nontrivial': True, 'hash': harness.h(case)}
    return {'verdict': 'held', 'hits': hits, 'features': feats, 'nontrivial': bool(nth), 'nt_hashes': sorted(nth),
            'sample': sample}
