"""C14 - every unrecognised atom is explained by a known modification or reported.

Events : identify_ptms wrapped from the harness (arguments, returned (modification, match) list or KeyError), the
         molecule before/after CanonicalizeModifications.run_molecule, log records of type unknown-input.
Oracle : cover checker - each flagged atom is in exactly one returned placement (induced, anchors by name, added
         atoms by element) and carries that modification's canonical name / replacements with the touched residues
         labelled, or it is gone and an unknown-input warning was logged.
"""
import io
import itertools

from .. import harness, util
from ..gen import atomistic

PROPERTY = 'C14'
LEVEL = 'exploration'
RULE = ('(a) peptides of 1-5 residues built from charmm / amber blocks carrying 0-3 shipped modifications (termini, '
        'protonation states; two on one residue), PTM atom names scrambled or canonical, plus junk atoms matching no '
        'modification; run through the real RepairGraph (which sets the flags) and CanonicalizeModifications. '
        '(b) synthetic force fields rendered as .ff text and loaded with read_ff: modifications that are sub-patterns '
        'of one another, share anchors, span two residues, decoys with the right elements but a wrong anchor or a '
        'non-induced fit; molecules with flagged atoms planted accordingly. Non-trivial = >= 2 flagged groups, or a '
        'residue with two modifications, or a decoy next to a genuine modification. distinct = distinct case hashes.')
ASSUMPTIONS = ['the statement allows removal-with-warning even when a cover exists; such cases are counted '
               '(planted_cover_lost) but are a violation only without the warning',
               'zero observed identify_ptms calls while flagged atoms exist makes the case inconclusive']
MIN_HITS = {'quick': 1000, 'thorough': 50000}
CASE_TIMEOUT = 900

_STATE = {'calls': None, 'installed': False}


def install():
    import vermouth.processors.canonicalize_modifications as CM
    if _STATE['installed']:
        return CM
    orig = CM.identify_ptms

    def wrapped(residue, residue_ptms, known_ptms):
        snap = [(set(a), set(b)) for a, b in residue_ptms]
        nodes = set(residue.nodes)
        try:
            out = orig(residue, residue_ptms, known_ptms)
        except KeyError:
            if _STATE['calls'] is not None:
                _STATE['calls'].append((nodes, snap, None))
            raise
        if _STATE['calls'] is not None:
            _STATE['calls'].append((nodes, snap, [(m, dict(match)) for m, match in out]))
        return out
    CM.identify_ptms = wrapped
    _STATE['installed'] = True
    return CM


# ------------------------------------------------------------------ (b) synthetic force fields
BLOCK_ATOMS = [('A1', 'N'), ('A2', 'C'), ('A3', 'C'), ('A4', 'O'), ('A5', 'C')]
BLOCK_EDGES = [('A1', 'A2'), ('A2', 'A3'), ('A3', 'A4'), ('A3', 'A5')]   # A5(i)-A1(i+1) peptide-like link


def synth_mods(rnd):
    """Returns list of modification specs: name, anchors [(name, element)], ptm [(name, element)], edges."""
    mods = []
    anchors = rnd.sample(['A1', 'A2', 'A4', 'A5'], rnd.randint(1, 3))
    el = dict(BLOCK_ATOMS)
    for i, a in enumerate(anchors):
        base_el = rnd.choice(['O', 'P', 'S'])
        # M_small: anchor + X ; M_big: anchor + X + H on X (small is a sub-pattern of big)
        mods.append({'name': 'S%d' % i, 'anchors': [a], 'ptm': [('X%da' % i, base_el)], 'edges': [(a, 'X%da' % i)]})
        if rnd.random() < 0.7:
            mods.append({'name': 'B%d' % i, 'anchors': [a], 'ptm': [('Y%da' % i, base_el), ('Y%db' % i, 'H')],
                         'edges': [(a, 'Y%da' % i), ('Y%da' % i, 'Y%db' % i)]})
        if rnd.random() < 0.4:
            # same anchor, different element: overlapping anchors
            other = rnd.choice([e for e in ['O', 'P', 'S', 'C'] if e != base_el])
            mods.append({'name': 'O%d' % i, 'anchors': [a], 'ptm': [('Z%da' % i, other)], 'edges': [(a, 'Z%da' % i)]})
        if rnd.random() < 0.3:
            # two PTM atoms on the same anchor (competes with twice the small one)
            mods.append({'name': 'D%d' % i, 'anchors': [a], 'ptm': [('W%da' % i, base_el), ('W%db' % i, base_el)],
                         'edges': [(a, 'W%da' % i), (a, 'W%db' % i)]})
    if rnd.random() < 0.5:
        # bridge spanning two residues: S bonded to A2 of one residue and A4 of another
        mods.append({'name': 'BR', 'anchors': ['A2', 'A4'], 'ptm': [('BS', 'S')], 'edges': [('A2', 'BS'), ('A4', 'BS')],
                     'span': True})
    if rnd.random() < 0.3:
        mods.append({'name': 'RP', 'anchors': ['A3'], 'ptm': [('RX', 'C')], 'edges': [('A3', 'RX')],
                     'replace': {'RX': {'atomname': 'RXN', 'charge': 1.0}, 'A3': {'atype': 'modified'}}})
    rnd.shuffle(mods)
    return mods


def render_ff(mods):
    import json
    out = ['[ moleculetype ]', 'RES 1', '[ atoms ]']
    for i, (n, e) in enumerate(BLOCK_ATOMS, 1):
        out.append('%d %s 1 RES %s %d 0.0' % (i, e, n, i))
    out.append('[ edges ]')
    out += ['%s %s' % e for e in BLOCK_EDGES]
    el = dict(BLOCK_ATOMS)
    for m in mods:
        out += ['', '[ modification ]', m['name'], '[ atoms ]']
        rep = m.get('replace', {})
        for a in m['anchors']:
            d = {'element': el[a]}
            if a in rep:
                d['replace'] = rep[a]
            out.append('%s %s' % (a, json.dumps(d)))
        for n, e in m['ptm']:
            d = {'element': e, 'PTM_atom': True}
            if n in rep:
                d['replace'] = rep[n]
            out.append('%s %s' % (n, json.dumps(d)))
        out.append('[ edges ]')
        out += ['%s %s' % e for e in m['edges']]
    return '\n'.join(out) + '\n'


def gen_synth(rnd):
    mods = synth_mods(rnd)
    nres = rnd.randint(1, 4)
    plants = []   # (mod index, [residue per anchor])
    used_small = {}
    for mi, m in enumerate(mods):
        for _ in range(rnd.choice([0, 1, 1, 2])):
            if m.get('span'):
                if nres < 2:
                    continue
                r1, r2 = rnd.sample(range(nres), 2)
                plants.append((mi, [r1, r2]))
            else:
                plants.append((mi, [rnd.randrange(nres)]))
    rnd.shuffle(plants)
    plants = plants[:rnd.randint(0, 4)]
    decoys = []
    chains = [mi for mi, m in enumerate(mods) if len(m['ptm']) == 2 and len(m['edges']) == 2 and m['edges'][1][0] != m['anchors'][0]]
    for _ in range(rnd.choice([0, 0, 1, 2])):
        kind = rnd.choice(['wrong-anchor', 'non-induced', 'unknown-element', 'ring-closed', 'ring-closed'])
        r = rnd.randrange(nres)
        ref = None
        if kind == 'ring-closed':
            if not chains:
                continue
            ref = rnd.choice(chains)
            same = [res[0] for mi, res in plants if mi == ref]
            if same and rnd.random() < 0.7:
                r = rnd.choice(same)
        decoys.append((kind, r, ref))
    return {'mods': mods, 'nres': nres, 'plants': plants, 'decoys': decoys, 'scramble': rnd.random() < 0.6,
            'key_shuffle': rnd.random() < 0.5, 'resid_start': rnd.choice([1, 5, 40, 0]),
            'own_resid': {str(mi): rnd.choice(['own', 'own', 'next']) for mi, _ in plants if rnd.random() < 0.15}}


def build_synth(case, rnd):
    from vermouth.ffinput import read_ff
    from vermouth.forcefield import ForceField
    from vermouth.molecule import Molecule
    ff = ForceField(name='verif_c14_%d' % rnd.randrange(10 ** 9))
    read_ff(io.StringIO(render_ff(case['mods'])).read().splitlines(), ff)
    mol = Molecule(force_field=ff)
    nres = case['nres']
    total = nres * len(BLOCK_ATOMS) + 40
    keys = list(range(total))
    if case['key_shuffle']:
        keys = rnd.sample(range(total * 2), total)
    kit = iter(keys)
    key = {}
    aid = 1
    for r in range(nres):
        for n, e in BLOCK_ATOMS:
            k = next(kit)
            key[(r, n)] = k
            mol.add_node(k, atomname=n, element=e, resname='RES', resid=case['resid_start'] + r, chain='A', atomid=aid)
            aid += 1
        for u, v in BLOCK_EDGES:
            mol.add_edge(key[(r, u)], key[(r, v)])
        if r:
            mol.add_edge(key[(r - 1, 'A5')], key[(r, 'A1')])
    planted = []
    flagged_expected_ok = set()
    for mi, residues in case['plants']:
        m = case['mods'][mi]
        local = {}
        for a, r in zip(m['anchors'], residues if len(residues) == len(m['anchors']) else residues * len(m['anchors'])):
            local[a] = key[(r, a)]
        for n, e in m['ptm']:
            k = next(kit)
            nm = n if not case['scramble'] else '%sq%d' % (e, aid)
            # the added atoms are usually numbered with the residue they hang off; sometimes as a residue of their own
            # (a phosphate or cap numbered separately), sometimes with the next residue
            own = case.get('own_resid', {}).get(str(mi))
            rid = case['resid_start'] + residues[0] if own is None else (case['resid_start'] + 100 + mi if own == 'own' else
                                                                         case['resid_start'] + residues[0] + 1)
            mol.add_node(k, atomname=nm, element=e, resname='RES', resid=rid, chain='A',
                         atomid=aid, PTM_atom=True)
            aid += 1
            local[n] = k
        for u, v in m['edges']:
            mol.add_edge(local[u], local[v])
        planted.append((m['name'], local))
    decoy_nodes = []
    for kind, r, ref in case['decoys']:
        k = next(kit)
        if kind == 'ring-closed':
            # the atoms of a two-atom chain modification, but with the chain end also bonded to the anchor:
            # fits the modification's nodes and edges, yet not as an induced subgraph
            m = case['mods'][ref]
            a = m['anchors'][0]
            k2 = next(kit)
            mol.add_node(k, atomname='RC%d' % aid, element=m['ptm'][0][1], resname='RES', resid=case['resid_start'] + r,
                         chain='A', atomid=aid, PTM_atom=True)
            aid += 1
            mol.add_node(k2, atomname='RD%d' % aid, element=m['ptm'][1][1], resname='RES', resid=case['resid_start'] + r,
                         chain='A', atomid=aid, PTM_atom=True)
            mol.add_edge(k, key[(r, a)])
            mol.add_edge(k, k2)
            mol.add_edge(k2, key[(r, a)])
            decoy_nodes.append(k2)
        elif kind == 'wrong-anchor':
            el = case['mods'][0]['ptm'][0][1] if case['mods'] else 'O'
            mol.add_node(k, atomname='DQ%d' % aid, element=el, resname='RES', resid=case['resid_start'] + r, chain='A',
                         atomid=aid, PTM_atom=True)
            mol.add_edge(k, key[(r, 'A3')])
        elif kind == 'non-induced':
            el = case['mods'][0]['ptm'][0][1] if case['mods'] else 'O'
            a = case['mods'][0]['anchors'][0] if case['mods'] else 'A1'
            mol.add_node(k, atomname='DN%d' % aid, element=el, resname='RES', resid=case['resid_start'] + r, chain='A',
                         atomid=aid, PTM_atom=True)
            mol.add_edge(k, key[(r, a)])
            other = 'A3' if a != 'A3' else 'A2'
            mol.add_edge(k, key[(r, other)])   # extra bond: no induced placement
        else:
            mol.add_node(k, atomname='DU%d' % aid, element='F', resname='RES', resid=case['resid_start'] + r, chain='A',
                         atomid=aid, PTM_atom=True)
            mol.add_edge(k, key[(r, rnd.choice(['A1', 'A2', 'A4']))])
        aid += 1
        decoy_nodes.append(k)
    if case.get('flagged_first', case['nres'] % 4 == 1):
        # the unrecognised atoms are stored ahead of the atoms of their residues (listed first in the file)
        order = [n for n in mol.nodes if mol.nodes[n].get('PTM_atom')] + [n for n in mol.nodes if not mol.nodes[n].get('PTM_atom')]
        new = Molecule(force_field=ff)
        for n in order:
            new.add_node(n, **mol.nodes[n])
        new.add_edges_from(mol.edges(data=True))
        mol = new
    return mol, planted, decoy_nodes


# ------------------------------------------------------------------ (a) real force fields
REAL_MODS = {
    'charmm': {'nter': ['N-ter', 'NH2-ter'], 'cter': ['C-ter', 'COOH-ter'], 'GLU': ['GLU-HE1'], 'ASP': ['ASP-HD2']},
    'amber': {'nter': ['N-ter'], 'cter': ['C-ter'], 'GLU': [], 'ASP': []},
}


def gen_real(rnd):
    ffname = rnd.choice(['charmm', 'charmm', 'amber'])
    L = rnd.randint(1, 5)
    return {'ff': ffname, 'L': L, 'seed': rnd.randrange(10 ** 9), 'scramble': rnd.random() < 0.5,
            'junk': rnd.choice([0, 0, 0, 1, 2]), 'nter': rnd.random() < 0.8, 'cter': rnd.random() < 0.8,
            'side': rnd.random() < 0.6, 'requested': rnd.random() < 0.4}


def build_real(case):
    from vermouth.processors.repair_graph import RepairGraph
    rnd = harness.rng('C14real', case['seed'])
    ff = atomistic.native_ff(case['ff'])
    names = atomistic.aa_names(ff)
    seq = [rnd.choice(names) for _ in range(case['L'])]
    avail = REAL_MODS[case['ff']]
    mods = []
    if case['nter'] and avail['nter'] and seq[0] != 'PRO':
        mods.append((0, rnd.choice([m for m in avail['nter'] if m in ff.modifications])))
    if case['cter'] and avail['cter']:
        mods.append((len(seq) - 1, rnd.choice([m for m in avail['cter'] if m in ff.modifications])))
    if case['side']:
        for ri, rn in enumerate(seq):
            for m in avail.get(rn, []):
                if m in ff.modifications and rnd.random() < 0.6:
                    mods.append((ri, m))
    mol, truth = atomistic.build_peptide(ff, seq, rnd, mods=mods, scramble_ptm_names=case['scramble'], junk=case['junk'])
    if case.get('requested'):
        # the modifications are also REQUESTED, as -nter/-cter/-modify do through AnnotateMutMod: RepairGraph then builds them into
        # the reference residue and hands them to the canonicaliser as already known
        by_res = {}
        for ri, m in mods:
            by_res.setdefault(ri, []).append(m)
        rids = sorted({d['resid'] for _, d in mol.nodes(data=True)})
        for n, d in mol.nodes(data=True):
            ri = rids.index(d['resid'])
            if ri in by_res and not d.get('junk'):
                d['modification'] = list(by_res[ri])
    rep = util.shared(RepairGraph, include_graph=False).run_molecule(mol)
    return rep, truth, seq, mods


# ------------------------------------------------------------------ the monitor
def monitor(mol, planted_ok, b):
    """Run CanonicalizeModifications on mol (flags already set) and check the cover. -> (problem|None, info)"""
    CM = install()
    cap = util.capture()
    flagged = {n for n, d in mol.nodes(data=True) if d.get('PTM_atom')}
    pre_edges = {frozenset(e) for e in mol.edges}
    pre = {n: dict(d) for n, d in mol.nodes(data=True)}
    unflagged = set(mol.nodes) - flagged
    _STATE['calls'] = []
    cap.clear()
    try:
        out = util.shared(CM.CanonicalizeModifications).run_molecule(mol)
    except Exception as e:
        import traceback
        _STATE['calls'] = None
        return ('exception/%s' % type(e).__name__, {'error': repr(e), 'trace': traceback.format_exc()[-700:]}), {}
    calls = _STATE['calls']
    _STATE['calls'] = None
    info = {'flagged': len(flagged), 'calls': len(calls)}
    if flagged and not calls:
        return 'inconclusive', info
    b.hits += len(calls) + 1
    covered = {}
    for resnodes, ptms, ident in calls:
        if ident is None:
            continue
        resids = {pre[n]['resid'] for n in resnodes}
        for m, match in ident:
            if len(set(match.values())) != len(match):
                return ('placement/not-injective', {'mod': m.name}), info
            for mol_idx, mod_idx in match.items():
                mn = m.nodes[mod_idx]
                if mn.get('PTM_atom'):
                    covered.setdefault(mol_idx, []).append((m, mod_idx))
                    if mol_idx not in flagged:
                        return ('placement/recognised-atom-as-added-atom', {'mod': m.name, 'atom': mol_idx}), info
                    if mn['element'] != pre[mol_idx].get('element'):
                        return ('placement/element-mismatch', {'mod': m.name, 'atom': mol_idx}), info
                else:
                    if mol_idx in flagged:
                        return ('placement/flagged-atom-as-anchor', {'mod': m.name, 'atom': mol_idx}), info
                    if mn['atomname'] != pre[mol_idx].get('atomname'):
                        return ('placement/anchor-name-mismatch', {'mod': m.name, 'atom': mol_idx,
                                                                   'anchor': mn['atomname'], 'atomname': pre[mol_idx].get('atomname')}), info
            for a, c in itertools.combinations(match, 2):
                if (frozenset((a, c)) in pre_edges) != m.has_edge(match[a], match[c]):
                    return ('placement/not-induced', {'mod': m.name, 'atoms': [a, c],
                                                      'bonded_in_molecule': frozenset((a, c)) in pre_edges}), info
            # all atoms of the touched residues are labelled
            for n, d in out.nodes(data=True):
                if d.get('resid') in resids and n in resnodes:
                    if m not in (d.get('modifications') or []):
                        return ('label/residue-atom-unlabelled', {'mod': m.name, 'atom': n, 'atomname': d.get('atomname')}), info
    warned = bool(cap.of_type('unknown-input'))
    removed = 0
    for n in flagged:
        c = covered.get(n, [])
        if len(c) > 1:
            return ('cover/twice', {'atom': n, 'mods': [x[0].name for x in c]}), info
        if len(c) == 1:
            m, mod_idx = c[0]
            mn = m.nodes[mod_idx]
            if n not in out:
                return ('cover/covered-but-removed', {'atom': n, 'mod': m.name}), info
            want = mn.get('replace', {}).get('atomname', mn['atomname']) if 'atomname' in mn.get('replace', {}) else mn['atomname']
            if out.nodes[n].get('atomname') != want:
                return ('cover/canonical-name', {'atom': n, 'observed': out.nodes[n].get('atomname'), 'expected': want,
                                                 'mod': m.name}), info
            for attr, val in mn.get('replace', {}).items():
                if out.nodes[n].get(attr) != val:
                    return ('cover/replace-not-applied', {'atom': n, 'attr': attr, 'expected': val,
                                                         'observed': out.nodes[n].get(attr)}), info
            if m not in (out.nodes[n].get('modifications') or []):
                return ('label/ptm-atom-unlabelled', {'atom': n, 'mod': m.name}), info
        else:
            if n in out:
                return ('cover/silently-kept', {'atom': n, 'atomname': out.nodes[n].get('atomname'),
                                                'labels': [x.name for x in out.nodes[n].get('modifications', [])]}), info
            removed += 1
            if not warned:
                return ('cover/removed-without-warning', {'atom': n}), info
            # ... a warning about THIS removal: one of the unknown-input warnings names the atom
            name = str(pre[n].get('atomname'))
            if not any(name in r[2] for r in cap.of_type('unknown-input')):
                return ('cover/removed-without-warning', {'atom': n, 'atomname': name, 'warnings_given': [r[2][:160] for r in cap.of_type('unknown-input')][:4]}), info
    # anchors' replacements
    for resnodes, ptms, ident in calls:
        for m, match in (ident or []):
            for mol_idx, mod_idx in match.items():
                mn = m.nodes[mod_idx]
                if not mn.get('PTM_atom') and 'replace' in mn and mol_idx in out:
                    for attr, val in mn['replace'].items():
                        if out.nodes[mol_idx].get(attr) != val:
                            return ('cover/anchor-replace-not-applied', {'atom': mol_idx, 'attr': attr}), info
    lost = [n for n in unflagged if n not in out]
    if lost:
        return ('recognised-atom-removed', {'atoms': lost[:5]}), info
    info['removed'] = removed
    info['warned'] = warned
    info['covered'] = sum(1 for n in flagged if len(covered.get(n, [])) == 1)
    info['planted_lost'] = sum(1 for n in planted_ok if n not in out)
    info['mods_identified'] = sorted({m.name for _, _, ident in calls for m, _ in (ident or [])})
    return None, info


def cases(tier, seed):
    nb, per = (32, 30) if tier == 'quick' else (128, 420)
    return [{'seed': seed, 'batch': b, 'n': per} for b in range(nb)]


def run_case(params):
    rnd = harness.rng('C14', params['seed'], params['batch'])
    b = harness.Batch()
    for j in range(params['n']):
        b.total += 1
        if rnd.random() < 0.45:
            case = gen_real(rnd)
            try:
                mol, truth, seq, mods = build_real(case)
            except Exception as e:  # repair is C04's subject; a failure here is not decided by this check
                b.inconclusive('repair-failed:%s' % type(e).__name__)
                continue
            planted_ok = set()
            if not case['junk']:
                for _, _, local in truth['mods']:
                    planted_ok.update(v for k, v in local.items() if mol.nodes.get(v, {}).get('PTM_atom'))
            p, info = monitor(mol, planted_ok, b)
            desc = {'kind': 'real', 'ff': case['ff'], 'sequence': seq, 'modifications': mods, 'junk': case['junk'],
                    'scrambled_names': case['scramble']}
            nt = len(mods) >= 2 or (case['junk'] and mods)
            b.feat({'real_cases': 1, 'real_with_junk': int(bool(case['junk']))})
        else:
            case = gen_synth(rnd)
            mol, planted, decoys = build_synth(case, rnd)
            planted_ok = set()
            if not decoys:
                for name, local in planted:
                    planted_ok.update(v for v in local.values() if mol.nodes[v].get('PTM_atom'))
            p, info = monitor(mol, planted_ok, b)
            desc = {'kind': 'synthetic', 'case': case}
            per_res = {}
            for mi, residues in case['plants']:
                per_res[residues[0]] = per_res.get(residues[0], 0) + 1
            nt = len(case['plants']) >= 2 or (case['decoys'] and case['plants'])
            b.feat({'synthetic_cases': 1, 'synthetic_with_decoy': int(bool(case['decoys'])),
                    'two_mods_on_one_residue': int(any(v >= 2 for v in per_res.values())),
                    'spanning_mod_planted': int(any(case['mods'][mi].get('span') for mi, _ in case['plants']))})
        if p == 'inconclusive':
            b.inconclusive('monitor-not-reached')
            continue
        if p:
            b.violation(p[0], 'modification cover violated (%s)' % p[0], {'subcase': j, 'detail': p[1], 'info': info, 'case': desc})
            continue
        b.feat({'flagged_atoms': info.get('flagged', 0), 'covered_atoms': info.get('covered', 0),
                'removed_with_warning': info.get('removed', 0), 'identify_calls': info.get('calls', 0),
                'planted_cover_lost': info.get('planted_lost', 0)})
        if nt and info.get('flagged'):
            b.nontrivial(desc, dict(desc, observed=info))
    return b.result()
