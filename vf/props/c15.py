"""C15 - elastic-network bonds are exactly the pairs meeting every stated criterion.

Events : 'bonds' interactions with meta group 'Rubber band' after ApplyRubberBand.run_molecule; log records.
Oracle : pairwise reference over all unordered pairs of selected atoms (five criteria), written from the statement;
         paired executions for rigid-motion and atom-order invariance; NaN path must warn, not fail.
"""
import math

import numpy as np

from .. import harness, util

PROPERTY = 'C15'
LEVEL = 'exploration'
RULE = ('Batches of generated coarse-grained molecules: 2-60 particles in 1-4 chains with residue-number gaps, side '
        'chains, cross-links between chains/residues; random, lattice and planted near-threshold coordinates; '
        'selections: backbone, name list, every-third-atom flag, one chain only; domains: whole molecule, chain, '
        'residue regions; bounds, decay factor/power (integer powers; fractional only with lower bound 0), minimum '
        'force, residue separation 0-4 (explicit or from the force-field variable). Each molecule is run three times '
        '(as is, rigidly moved, atoms inserted in another order) and once with a NaN coordinate. Non-trivial = irregular '
        'selection (not all atoms, not only backbone) or >= 2 chains, with >= 1 expected bond and >= 1 pair rejected by '
        'each of at least two different criteria. distinct = distinct (molecule, parameters) hashes. Also: overlapping / nested / reversed residue regions (non-transitive domains); coordinates and cut-offs on a 0.25 lattice where equality with the upper cut-off is decided; minimum force equal to the base constant.')
ASSUMPTIONS = ['pairs whose distance is within 1e-9 (relative) of the upper cut-off, or whose force constant is within '
               '1e-9 (relative) of the minimum force, are undecided',
               'bond length must equal the distance within 0.5e-5 (+1e-12); force constant within 1e-9 relative',
               'fractional decay powers only with d >= lower bound (formula real-valued)']
MIN_HITS = {'quick': 3000, 'thorough': 120000}
CASE_TIMEOUT = 900


def gen(rnd):
    nchains = rnd.randint(1, 4)
    atoms = []   # (key, attrs)
    edges = []
    key = rnd.choice([0, 1, 7])
    bbs = []
    lattice = rnd.random() < 0.3
    box = rnd.choice([1.0, 2.0, 3.0])
    third = 0
    for c in range(nchains):
        resid = rnd.randint(1, 5)
        prev = None
        for i in range(rnd.randint(1, 9)):
            step = rnd.choice([1, 1, 1, 2, 5, 0]) if i else 1
            resid += step
            resname = rnd.choice(['ALA', 'GLY', 'LYS'])
            icode = None
            if step == 0:
                # another residue with the same number: told apart by an insertion code (52, 52A, 52B) or only by its name
                if rnd.random() < 0.7:
                    icode = 'ABCDEFGHI'[i]
                else:
                    resname = {'ALA': 'GLY', 'GLY': 'LYS', 'LYS': 'ALA'}[last_resname]
            last_resname = resname
            n_sc = rnd.choice([0, 0, 1, 2])
            names = ['BB'] + ['SC%d' % (s + 1) for s in range(n_sc)]
            first = None
            for nm in names:
                if lattice:
                    pos = [rnd.randrange(0, 8) * 0.25, rnd.randrange(0, 8) * 0.25, rnd.randrange(0, 3) * 0.25]
                else:
                    pos = [rnd.uniform(0, box), rnd.uniform(0, box), rnd.uniform(0, box / 3)]
                a = {'atomname': nm, 'resname': resname, 'resid': resid, 'chain': 'ABCD'[c], 'position': pos,
                     'flag': third % 3 == 0}
                if icode:
                    a['insertion_code'] = icode
                third += 1
                if rnd.random() < 0.7:
                    a['_old_resid'] = resid + rnd.choice([0, 0, 10])
                atoms.append((key, a))
                if first is None:
                    first = key
                    if prev is not None:
                        edges.append((prev, key))
                    prev = key
                    bbs.append(key)
                else:
                    edges.append((first, key))
                key += rnd.choice([1, 1, 1, 4])
    if len(bbs) > 3 and rnd.random() < 0.4:
        for _ in range(rnd.randint(1, 2)):
            u, v = rnd.sample(bbs, 2)
            edges.append((u, v))
    upper = rnd.choice([0.5, 0.75, 1.0]) if lattice and rnd.random() < 0.7 else rnd.choice([0.5, 0.6, 0.9, 1.4])
    lower = rnd.choice([0.0, 0.3, 0.5])
    decay = rnd.choice([(0, 0), (0, 1), (6, 1), (6, 2), (2, 3), (3, 0.5), (1, 1.5)])
    if not float(decay[1]).is_integer():
        lower = 0.0
    base = rnd.choice([500, 700, 1000.0])
    fmin = rnd.choice([0, 0, 50, 100, 400])
    if rnd.random() < 0.06:
        fmin = base          # the minimum force equals the base constant: nothing exceeds it
    # plant pairs near the cut-off and near the force threshold
    if len(atoms) >= 2 and rnd.random() < 0.5:
        for _ in range(rnd.randint(1, 3)):
            (k1, a1), (k2, a2) = rnd.sample(atoms, 2)
            dvec = np.array([rnd.gauss(0, 1) for _ in range(3)])
            dvec /= np.linalg.norm(dvec)
            target = upper * (1 + rnd.choice([-1e-6, 1e-6, -1e-3, 1e-3]))
            if decay[0] and fmin and rnd.random() < 0.5 and float(decay[1]) == 1.0:
                # distance where base*exp(-a(d-lower)) == fmin
                target = lower + math.log(base / fmin) / decay[0]
                target *= (1 + rnd.choice([-1e-5, 1e-5]))
            a2['position'] = list(np.array(a1['position']) + dvec * target)
    sel = rnd.choice(['bb', 'bb', 'names', 'flag', 'chainA', 'all'])
    dom = rnd.choice(['all', 'chain', 'regions'])
    r = rnd.random()
    if r < 0.25:
        regions = [(1, 6), (8, 20)]
    elif r < 0.5:
        regions = [(12, 2), (15, 40)]
    else:
        # overlapping, nested, touching and reversed regions: "same domain" is then not an equivalence relation
        top = max([a['resid'] for k, a in atoms] + [4]) + 2
        regions = []
        for _ in range(rnd.randint(2, 4)):
            lo = rnd.randint(0, top)
            regions.append((lo, rnd.randint(0, top)) if rnd.random() < 0.3 else (lo, min(top, lo + rnd.randint(0, 8))))
    sep = rnd.choice([0, 1, 2, 3, 4, None])
    return {'atoms': atoms, 'edges': edges, 'upper': upper, 'lower': lower, 'decay': decay, 'base': base, 'fmin': fmin,
            'sel': sel, 'dom': dom, 'regions': regions, 'sep': sep, 'ffsep': rnd.choice([None, 1, 3]),
            'bond_type': rnd.choice([6, 1, None]), 'preexisting': rnd.random() < 0.3}


def selected(case, a):
    s = case['sel']
    if s == 'bb':
        return a['atomname'] == 'BB'
    if s == 'names':
        return a['atomname'] in ('BB', 'SC2')
    if s == 'flag':
        return bool(a['flag'])
    if s == 'chainA':
        return a['chain'] == 'A'
    return True


def same_domain(case, a, b):
    d = case['dom']
    if d == 'all':
        return True
    if d == 'chain':
        return a['chain'] == b['chain']
    ra = a.get('_old_resid', a['resid'])
    rb = b.get('_old_resid', b['resid'])
    for reg in case['regions']:
        lo, hi = min(reg), max(reg)
        if lo <= ra <= hi and lo <= rb <= hi:
            return True
    return False


def reference(case, positions=None):
    """-> (bonds {frozenset: (d, k)}, undecided set, rejection counters)"""
    atoms = dict(case['atoms'])
    pos = positions or {k: a['position'] for k, a in atoms.items()}
    rid = {k: (a['chain'], a['resid'], a['resname'], a.get('insertion_code')) for k, a in atoms.items()}
    adj = {}
    for u, v in case['edges']:
        if rid[u] != rid[v]:
            adj.setdefault(rid[u], set()).add(rid[v])
            adj.setdefault(rid[v], set()).add(rid[u])
    sep = case['sep']
    if sep is None:
        sep = case['ffsep'] if case['ffsep'] is not None else 2   # documented default of the variable is 2? checked at run time
    dist_cache = {}

    def graph_dist(r):
        if r not in dist_cache:
            seen = {r: 0}
            frontier = [r]
            while frontier:
                nxt = []
                for x in frontier:
                    for y in adj.get(x, ()):
                        if y not in seen:
                            seen[y] = seen[x] + 1
                            nxt.append(y)
                frontier = nxt
            dist_cache[r] = seen
        return dist_cache[r]
    sel = [k for k, a in case['atoms'] if selected(case, a)]
    bonds = {}
    undecided = set()
    rej = {'domain': 0, 'separation': 0, 'distance': 0, 'force': 0}
    a_, p_ = case['decay']
    for i, u in enumerate(sel):
        for v in sel[i + 1:]:
            pair = frozenset((u, v))
            if not same_domain(case, atoms[u], atoms[v]):
                rej['domain'] += 1
                continue
            gd = graph_dist(rid[u]).get(rid[v], math.inf)
            if gd <= sep:
                rej['separation'] += 1
                continue
            d = math.dist(pos[u], pos[v])
            exact = float(case['upper'] * 4).is_integer() and all(float(x * 4).is_integer() for q in (u, v) for x in pos[q])
            if abs(d - case['upper']) <= 1e-9 * case['upper'] and not exact:
                # (coordinates and cut-off on a 0.25 lattice: the distance computation is exact and "does not exceed" is decided
                # at equality too)
                undecided.add(pair)
                continue
            if exact and d == case['upper']:
                rej['exactly_at_upper'] = rej.get('exactly_at_upper', 0) + 1
            if d > case['upper']:
                rej['distance'] += 1
                continue
            x = d - case['lower']
            if x < 0 and not float(p_).is_integer():
                undecided.add(pair)
                continue
            try:
                k = case['base'] * math.exp(-a_ * (x ** p_))
            except (OverflowError, ZeroDivisionError):
                undecided.add(pair)
                continue
            k = min(k, case['base'])
            if abs(k - case['fmin']) <= 1e-9 * max(case['base'], 1) and not (a_ == 0 or x == 0):
                # (without decay the constant IS the base constant, no arithmetic involved: "exceeds" is decided at equality)
                undecided.add(pair)
                continue
            if not k > case['fmin']:
                rej['force'] += 1
                continue
            bonds[pair] = (d, k)
    return bonds, undecided, rej, sep


def run_real(case, positions=None, order=None, nan_key=None, nan_mask=(True, True, True)):
    import functools
    from vermouth import selectors
    from vermouth.forcefield import ForceField
    from vermouth.molecule import Molecule
    from vermouth.processors import apply_rubber_band as arb
    ff = ForceField(name='verif_c15')
    if case['ffsep'] is not None:
        ff.variables['elastic_network_res_min_dist'] = case['ffsep']
    mol = Molecule(force_field=ff, nrexcl=1, meta={'moltype': 'verif_mol'})
    items = list(case['atoms'])
    if order is not None:
        items = [items[i] for i in order]
    for k, a in items:
        d = dict(a)
        p = positions[k] if positions else a['position']
        d['position'] = np.array(p, dtype=float)
        if k == nan_key:
            # all or only some of the components are undefined
            d['position'] = np.array([np.nan if m else x for m, x in zip(nan_mask, d['position'])])
        mol.add_node(k, **d)
    mol.add_edges_from(case['edges'])
    if case['preexisting'] and case['edges']:
        u, v = case['edges'][0]
        mol.add_interaction('bonds', (u, v), [1, 0.35, 1250], meta={'group': 'Backbone bonds'})
    sel = {'bb': selectors.select_backbone,
           'names': functools.partial(selectors.proto_select_attribute_in, attribute='atomname', values=['BB', 'SC2']),
           'flag': lambda a: bool(a.get('flag')),
           'chainA': lambda a: a.get('chain') == 'A',
           'all': selectors.select_all}[case['sel']]
    dom = {'all': arb.always_true, 'chain': arb.same_chain,
           'regions': arb.make_same_region_criterion(case['regions'])}[case['dom']]
    proc = arb.ApplyRubberBand(lower_bound=case['lower'], upper_bound=case['upper'], decay_factor=case['decay'][0],
                               decay_power=case['decay'][1], base_constant=case['base'], minimum_force=case['fmin'],
                               res_min_dist=case['sep'], bond_type=case['bond_type'], selector=sel, domain_criterion=dom)
    if (case['sep'] is None or case['bond_type'] is None) and len(case['atoms']) % 2 == 0:
        # the processor object has been used before, on a molecule whose force field sets the residue separation and the bond
        # type differently: what it resolves from a force field must be resolved again for every molecule
        ff0 = ForceField(name='verif_c15_primer')
        ff0.variables['elastic_network_res_min_dist'] = (case['ffsep'] or 2) + 2
        ff0.variables['elastic_network_bond_type'] = 1 if case.get('ffbond') != 1 else 6
        m0 = Molecule(force_field=ff0, nrexcl=1, meta={'moltype': 'verif_primer'})
        for i_ in range(4):
            m0.add_node(i_, atomname='BB', resname='ALA', resid=i_ + 1, chain='A', flag=True, position=np.array([0.3 * i_, 0.0, 0.0]))
        m0.add_edges_from([(0, 1), (1, 2), (2, 3)])
        proc.run_molecule(m0)
    proc.run_molecule(mol)
    got = {}
    dups = []
    others = 0
    for it in mol.interactions.get('bonds', []):
        if it.meta.get('group') != 'Rubber band':
            others += 1
            continue
        pair = frozenset(it.atoms)
        if pair in got:
            dups.append(sorted(pair))
        got[pair] = it.parameters
    return got, dups, others, arb


def compare(case, got, dups, positions=None, tag=''):
    bonds, undecided, rej, sep = reference(case, positions)
    if dups:
        return (tag + 'duplicate-bond', {'pairs': dups[:4]}), bonds, rej
    extra = [p for p in got if p not in bonds and p not in undecided]
    missing = [p for p in bonds if p not in got]
    if extra or missing:
        atoms = dict(case['atoms'])
        info = []
        pos = positions or {k: a['position'] for k, a in atoms.items()}
        for p in (extra + missing)[:4]:
            u, v = sorted(p)
            info.append({'pair': [u, v], 'kind': 'extra' if p in got else 'missing', 'd': math.dist(pos[u], pos[v]),
                         'names': [atoms[u]['atomname'], atoms[v]['atomname']], 'chains': [atoms[u]['chain'], atoms[v]['chain']],
                         'resids': [atoms[u]['resid'], atoms[v]['resid']], 'observed': got.get(p)})
        return (tag + 'bond-set', {'extra': len(extra), 'missing': len(missing), 'examples': info, 'separation_used': sep}), bonds, rej
    for p, (d, k) in bonds.items():
        par = got[p]
        if len(par) != 3 or abs(par[1] - d) > 0.5e-5 + 1e-12:
            return (tag + 'bond-length', {'pair': sorted(p), 'observed': par, 'distance': d}), bonds, rej
        if abs(par[2] - k) > 1e-9 * max(abs(k), 1e-300) + 1e-12:
            return (tag + 'force-constant', {'pair': sorted(p), 'observed': par, 'expected_k': k}), bonds, rej
    return None, bonds, rej


def rigid(rnd):
    a = np.array([[rnd.gauss(0, 1) for _ in range(3)] for _ in range(3)])
    q, r = np.linalg.qr(a)
    q = q * np.sign(np.diag(r))
    if np.linalg.det(q) < 0:
        q[:, 0] = -q[:, 0]
    return q, np.array([rnd.uniform(-5, 5) for _ in range(3)])


def check(case, rnd, b):
    cap = util.capture()
    try:
        got, dups, others, arb = run_real(case)
    except Exception as e:
        import traceback
        return ('exception/%s' % type(e).__name__, {'error': repr(e), 'trace': traceback.format_exc()[-600:]}), None, None
    b.hits += 1
    if case['sep'] is None and case['ffsep'] is None:
        case = dict(case, ffsep=arb.DEFAULT_RMD)
    if others != (1 if case['preexisting'] and case['edges'] else 0):
        return ('preexisting-bond-changed', {'others': others}), None, None
    p, bonds, rej = compare(case, got, dups)
    if p:
        return p, bonds, rej
    # bond type
    want_bt = case['bond_type'] if case['bond_type'] is not None else arb.DEFAULT_BOND_TYPE
    if any(par[0] != want_bt for par in got.values()):
        return ('bond-type', {'expected': want_bt}), bonds, rej
    # rigid motion
    R, t = rigid(rnd)
    moved = {k: list(R @ np.array(a['position']) + t) for k, a in case['atoms']}
    try:
        got2, dups2, _, _ = run_real(case, positions=moved)
    except Exception as e:
        return ('exception-moved/%s' % type(e).__name__, {'error': repr(e)}), bonds, rej
    b.hits += 1
    p, _, _ = compare(case, got2, dups2, positions=moved, tag='rigid-motion/')
    if p:
        return p, bonds, rej
    und = reference(case)[1] | reference(case, moved)[1]
    diff = [sorted(x) for x in (set(got) ^ set(got2)) if x not in und]
    # pairs decided differently by the two frames can only be numerically on a threshold
    real_diff = []
    for x in diff:
        u, v = x
        atoms = dict(case['atoms'])
        d = math.dist(atoms[u]['position'], atoms[v]['position'])
        if abs(d - case['upper']) > 1e-7 * case['upper']:
            k = None
            real_diff.append(x)
    if real_diff:
        return ('rigid-motion/differs', {'pairs': real_diff[:4]}), bonds, rej
    # atom order
    order = list(range(len(case['atoms'])))
    rnd.shuffle(order)
    try:
        got3, dups3, _, _ = run_real(case, order=order)
    except Exception as e:
        return ('exception-reordered/%s' % type(e).__name__, {'error': repr(e)}), bonds, rej
    b.hits += 1
    p, _, _ = compare(case, got3, dups3, tag='atom-order/')
    if p:
        return p, bonds, rej
    # NaN coordinates on one selected atom
    sel = [k for k, a in case['atoms'] if selected(case, a)]
    if sel:
        cap.clear()
        nk = rnd.choice(sel)
        mask = rnd.choice([(True, True, True), (True, True, True), (True, False, False), (False, True, False), (False, False, True),
                           (True, False, True)])
        try:
            got4, _, _, _ = run_real(case, nan_key=nk, nan_mask=mask)
        except Exception as e:
            return ('nan/exception', {'error': repr(e), 'nan_atom': nk}), bonds, rej
        b.hits += 1
        b.feat('nan_run')
        b.feat('nan_run_partially_undefined_position', int(not all(mask)))
        if got4:
            return ('nan/bonds-created', {'n': len(got4)}), bonds, rej
        if not [r for r in cap.recs if r[0] >= 30]:
            return ('nan/no-warning', {}), bonds, rej
    return None, bonds, rej


def cases(tier, seed):
    nb, per = (32, 30) if tier == 'quick' else (128, 300)
    return [{'seed': seed, 'batch': b, 'n': per} for b in range(nb)]


def run_case(params):
    rnd = harness.rng('C15', params['seed'], params['batch'])
    b = harness.Batch()
    for j in range(params['n']):
        case = gen(rnd)
        p, bonds, rej = check(case, rnd, b)
        if p:
            key = p[0]
            b.violation(key, 'elastic network differs from the pairwise criteria (%s)' % key,
                        {'subcase': j, 'detail': p[1], 'case': case})
            continue
        nchains = len({a['chain'] for _, a in case['atoms']})
        b.feat({'sel_' + case['sel']: 1, 'dom_' + case['dom']: 1, 'expected_bonds': len(bonds),
                'rejected_by_domain': rej['domain'], 'rejected_by_separation': rej['separation'],
                'rejected_by_distance': rej['distance'], 'rejected_by_force': rej['force'],
                'pairs_exactly_at_upper_cut_off': rej.get('exactly_at_upper', 0)})
        nrej = sum(1 for v in rej.values() if v)
        if (case['sel'] not in ('all', 'bb') or nchains >= 2) and bonds and nrej >= 2:
            b.nontrivial(case, {'n_atoms': len(case['atoms']), 'sel': case['sel'], 'dom': case['dom'], 'sep': case['sep'],
                                'upper': case['upper'], 'lower': case['lower'], 'decay': case['decay'], 'fmin': case['fmin'],
                                'expected_bonds': len(bonds), 'rejections': rej})
    return b.result()
