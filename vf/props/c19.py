"""C19 - mutation and modification requests hit exactly the residues they name.

Events : 'mutation' / 'modification' node attributes after AnnotateMutMod.run_system, WARNING records, exceptions; atoms
         (names, residue names) of the marked residues after RepairGraph.
Oracle : per specification, the residues whose (chain, resname, resid) agree with the given parts ('nter'/'cter' = protein
         residue with exactly one neighbour in the residue graph, of higher/lower residue number); unmatched
         specifications must be named in a warning; unknown targets must raise; after repair the residue has the atoms
         of the requested block (plus the modification's atoms) and one residue name.
"""
import itertools
import os

from .. import harness, util
from ..gen import atomistic

PROPERTY = 'C19'
LEVEL = 'exploration'
RULE = ('Systems of 1-4 molecules: protein chains of 1-6 residues built from charmm blocks (chains A/B/none, residue numbers '
        'with offsets, occasional insertion codes, disulfide cross-links making branched residue graphs), ligands with '
        'residue names ending in digits (PO4, C16) and plain ones; 1-5 specifications using every subset of the parts '
        'chain / residue name / residue number, nter / cter with and without chain, names ending in digits written with '
        '"#", some matching nothing, some matching in one molecule only, some with unknown targets. Part 2 runs the real '
        'RepairGraph on the annotated peptides. Non-trivial = >= 2 molecules and >= 2 specifications of which at least one '
        'matches and one matches nothing (or matches in only one molecule). distinct = distinct (system, specifications). Also: a second round of requests on copies of annotated molecules and on the repaired system (marks must be gained exactly once, by the named residues only); residue number 0.')
ASSUMPTIONS = ['specifications the documented grammar cannot express unambiguously (chain or name containing "-", a name '
               'ending in digits without "#") are not generated',
               'an unmatched specification counts as reported when a WARNING on logger vermouth mentions its target and '
               'one of its given parts',
               'repair part: only peptides of shipped amino-acid blocks with valid targets']
MIN_HITS = {'quick': 1500, 'thorough': 60000}
CASE_TIMEOUT = 900

PROT = ['ALA', 'GLY', 'SER', 'LYS', 'GLU', 'CYS', 'ASP', 'VAL', 'THR', 'PHE']
LIGS = ['PO4', 'C16', 'LIG', 'HEM', '2MG', 'MG', 'C8E', 'E', '5MC']     # names with a digit inside (modified nucleotides, hetero names) and their digit-free tails
MODS = ['N-ter', 'C-ter', 'NH2-ter', 'COOH-ter', 'none']


def gen_system(rnd):
    mols = []
    for mi in range(rnd.randint(1, 4)):
        if rnd.random() < 0.7:
            L = rnd.randint(1, 6)
            start = rnd.choice([1, 1, 10, 45, 0, 0])
            res = []
            r = start
            for i in range(L):
                res.append({'resname': rnd.choice(PROT), 'resid': r, 'icode': ''})
                if rnd.random() < 0.1:
                    res.append({'resname': rnd.choice(PROT), 'resid': r, 'icode': 'A'})
                r += rnd.choice([1, 1, 1, 2])
            cross = None
            cys = [i for i, x in enumerate(res) if x['resname'] == 'CYS']
            if len(cys) >= 2 and rnd.random() < 0.6:
                cross = cys[:2]
            if rnd.random() < 0.3:
                res[-1]['surplus'] = True
            chain = rnd.choice(['A', 'B', 'A', ''])
            if chain and len(res) >= 3 and rnd.random() < 0.25:
                # two chains in one bonded molecule, listed interleaved: a stretch in the middle carries the other chain identifier
                # (a residue written after the atoms of another chain, cross-linked chains): A A B B A
                i0 = rnd.randint(1, len(res) - 2)
                i1 = rnd.randint(i0 + 1, len(res) - 1)
                for x in res[i0:i1]:
                    x['chain'] = 'B' if chain == 'A' else 'A'
            mols.append({'kind': 'protein', 'chain': chain, 'res': res, 'cross': cross})
        else:
            n = rnd.randint(1, 3)
            res = [{'resname': rnd.choice(LIGS), 'resid': rnd.choice([1, 2, 4, 45]) + i, 'icode': ''} for i in range(n)]
            mols.append({'kind': 'ligand', 'chain': rnd.choice(['A', 'L', '']), 'res': res, 'cross': None, 'linked': rnd.random() < 0.5})
    return mols


def rchain(m, r):
    return r.get('chain', m['chain'])


def fmt_spec(parts):
    """Independent formatter of the documented grammar [<chain>-][<resname>][[#]<resid>]."""
    s = ''
    if 'chain' in parts:
        s += parts['chain'] + '-'
    name = parts.get('resname', '')
    s += name
    if name and name[-1].isdigit():
        s += '#'
    elif 'resid' in parts and rnd_hash(parts) and not name.startswith(('nter', 'cter')):
        s += '#'
    if 'resid' in parts:
        s += str(parts['resid'])
    return s


def rnd_hash(parts):
    return int(harness.h(parts), 16) % 3 == 0


def gen_specs(rnd, mols):
    allres = [(mi, ri) for mi, m in enumerate(mols) for ri in range(len(m['res']))]
    specs = []
    for _ in range(rnd.randint(1, 5)):
        kind = rnd.choice(['mutation', 'mutation', 'modification', 'modification'])
        r = rnd.random()
        if r < 0.25 and kind == 'modification':
            parts = {'resname': rnd.choice(['nter', 'cter'])}
            if rnd.random() < 0.4:
                parts['chain'] = rnd.choice(['A', 'B'])
        elif r < 0.8:
            mi, ri = rnd.choice(allres)
            m = mols[mi]
            full = {'chain': rchain(m, m['res'][ri]), 'resname': m['res'][ri]['resname'], 'resid': m['res'][ri]['resid']}
            keys = rnd.sample(sorted(full), rnd.randint(1, 3))
            parts = {k: full[k] for k in keys if not (k == 'chain' and not full[k])}
            if not parts:
                parts = {'resname': full['resname']}
        else:
            parts = rnd.choice([{'resname': 'TRP'}, {'resid': 999}, {'chain': 'Z'}, {'chain': 'A', 'resname': 'TRP', 'resid': 3},
                                {'resname': 'PO', 'resid': 4}, {'resname': 'C', 'resid': 16}])
        if kind == 'mutation':
            target = rnd.choice(PROT + ['ALA', 'GLY'])
            if rnd.random() < 0.08:
                target = 'XYZ'
        else:
            target = rnd.choice(MODS)
            if rnd.random() < 0.08:
                target = 'No-such-mod'
        if kind == 'modification' and rnd.random() < 0.3:
            # a side-chain modification (protonation state) asked for by residue name, possibly narrowed to one residue
            target = rnd.choice(['GLU-HE1', 'GLU-HE2', 'ASP-HD2', 'ASP-HD1'])
            rn_ = target[:3]
            parts = {'resname': rn_}
            hits_ = [(m, r_) for m in mols for r_ in m['res'] if r_['resname'] == rn_ and m['kind'] == 'protein']
            if hits_ and rnd.random() < 0.5:
                m, r_ = rnd.choice(hits_)
                parts['resid'] = r_['resid']
                if rchain(m, r_) and rnd.random() < 0.5:
                    parts['chain'] = rchain(m, r_)
        specs.append({'kind': kind, 'parts': parts, 'text': fmt_spec(parts), 'target': target})
    if specs and rnd.random() < 0.3:
        # the same thing asked twice, described differently (a general request and one for a particular residue)
        side_ = [x for x in specs if x['target'][:4] in ('GLU-', 'ASP-')]
        s0 = rnd.choice(side_ or specs)
        hits_ = [(m, r_) for m in mols for r_ in m['res']
                 if all({'chain': rchain(m, r_), 'resname': r_['resname'], 'resid': r_['resid']}.get(k_) == v_ for k_, v_ in s0['parts'].items())]
        if hits_ and s0['parts'].get('resname') not in ('nter', 'cter'):
            m, r_ = rnd.choice(hits_)
            parts = {'resname': r_['resname'], 'resid': r_['resid']}
            if rchain(m, r_):
                parts['chain'] = rchain(m, r_)
            other_ = {'GLU-HE1': 'GLU-HE2', 'GLU-HE2': 'GLU-HE1', 'ASP-HD1': 'ASP-HD2', 'ASP-HD2': 'ASP-HD1'}.get(s0['target'])
            if other_ and rnd.random() < 0.6:
                # ... with another modification of that residue asked for in between (X, Y, X)
                specs.append({'kind': s0['kind'], 'parts': dict(parts), 'text': fmt_spec(parts), 'target': other_})
            specs.append({'kind': s0['kind'], 'parts': parts, 'text': fmt_spec(parts), 'target': s0['target']})
    return specs


def build(mols, with_atoms=True):
    from vermouth.molecule import Molecule
    from vermouth.system import System
    ff = atomistic.native_ff('charmm')
    system = System(force_field=ff)
    index = []
    for mi, m in enumerate(mols):
        mol = Molecule(force_field=ff)
        k = 0
        prevC = None
        sg = {}
        for ri, r in enumerate(m['res']):
            if m['kind'] == 'protein':
                blk = ff.blocks[r['resname']]
                local = {}
                for an in blk.nodes:
                    local[an] = k
                    mol.add_node(k, atomname=an, element=blk.nodes[an].get('element', an[0]), resname=r['resname'], resid=r['resid'],
                                 chain=rchain(m, r), insertion_code=r['icode'], atomid=k + 1, tag=(mi, ri))
                    k += 1
                for u, v in blk.edges:
                    mol.add_edge(local[u], local[v])
                if prevC is not None:
                    mol.add_edge(prevC, local['N'])
                prevC = local['C']
                if r.get('surplus'):
                    # an atom the plain residue block does not have (a second carboxylate oxygen): belongs to a C-terminal
                    # modification if one is requested, is surplus if the residue is requested as anything else
                    mol.add_node(k, atomname='OXT', element='O', resname=r['resname'], resid=r['resid'], chain=rchain(m, r),
                                 insertion_code=r['icode'], atomid=k + 1, tag=(mi, ri))
                    mol.add_edge(local['C'], k)
                    k += 1
                if 'SG' in local:
                    sg[ri] = local['SG']
            else:
                first = k
                for an in ('P1', 'O1', 'O2'):
                    mol.add_node(k, atomname=an, element=an[0], resname=r['resname'], resid=r['resid'], chain=m['chain'],
                                 insertion_code='', atomid=k + 1, tag=(mi, ri))
                    if k > first:
                        mol.add_edge(first, k)
                    k += 1
                if prevC is not None and m.get('linked'):
                    mol.add_edge(prevC, first)
                prevC = first
        if m['cross']:
            a, c = m['cross']
            if a in sg and c in sg:
                mol.add_edge(sg[a], sg[c])
        system.add_molecule(mol)
    return system


def expected_targets(mols, specs):
    """-> ({(mi, ri): {'mutation': [...], 'modification': [...]}}, unmatched spec indices, error expected?)"""
    # residue graphs
    marks = {}
    matched_any = [False] * len(specs)
    error = False
    for mi, m in enumerate(mols):
        n = len(m['res'])
        adj = {i: set() for i in range(n)}
        for i in range(n - 1):
            if m['kind'] == 'protein' or m.get('linked'):
                adj[i].add(i + 1)
                adj[i + 1].add(i)
        if m['cross']:
            a, c = m['cross']
            adj[a].add(c)
            adj[c].add(a)
        protein = m['kind'] == 'protein'
        # associations are processed modifications first, then mutations (documented order of the attribute lists
        # is per key, so only the per-key order matters)
        for si, s in enumerate(specs):
            for ri, r in enumerate(m['res']):
                parts = s['parts']
                ok = True
                if parts.get('resname') in ('nter', 'cter'):
                    if not (protein and len(adj[ri]) == 1):
                        ok = False
                    else:
                        nb = next(iter(adj[ri]))
                        other = m['res'][nb]['resid']
                        ok = r['resid'] < other if parts['resname'] == 'nter' else r['resid'] > other
                    if ok and 'chain' in parts and parts['chain'] != rchain(m, r):
                        ok = False
                else:
                    for k, v in parts.items():
                        have = {'chain': rchain(m, r), 'resname': r['resname'], 'resid': r['resid']}[k]
                        if have != v:
                            ok = False
                if ok:
                    matched_any[si] = True
                    marks.setdefault((mi, ri), {'mutation': [], 'modification': []})[s['kind']].append(s['target'])
    return marks, [i for i, x in enumerate(matched_any) if not x]


def check_annotation(mols, specs, b, earlier=None):
    """`earlier`: molecules of ANOTHER system the same processor object is run on first (a processor is built once and
    may be run on several systems); what it found there says nothing about this system."""
    from vermouth.processors.annotate_mut_mod import AnnotateMutMod
    cap = util.capture()
    system = build(mols)
    ff = system.force_field
    marks, unmatched = expected_targets(mols, specs)
    unknown_matched = [s for i, s in enumerate(specs) if i not in unmatched and
                       ((s['kind'] == 'mutation' and s['target'] not in ff.blocks) or
                        (s['kind'] == 'modification' and s['target'] != 'none' and s['target'] not in ff.modifications))]
    cap.clear()
    mods = [(s['text'], s['target']) for s in specs if s['kind'] == 'modification']
    muts = [(s['text'], s['target']) for s in specs if s['kind'] == 'mutation']
    b.hits += 1
    try:
        proc = AnnotateMutMod(modifications=mods, mutations=muts)
        if earlier is not None:
            try:
                proc.run_system(build(earlier))
            except Exception:
                pass
            cap.clear()
        proc.run_system(system)
        raised = None
    except Exception as e:
        raised = e
    info = {'unmatched': len(unmatched), 'marked_residues': len(marks), 'unknown_target': bool(unknown_matched)}
    if unknown_matched:
        if raised is None:
            return ('unknown-target-accepted', {'spec': unknown_matched[0]}), info, None
        return None, info, None
    if raised is not None:
        import traceback
        return ('exception/%s' % type(raised).__name__, {'error': repr(raised),
                                                          'trace': ''.join(traceback.format_exception(type(raised), raised, raised.__traceback__))[-600:]}), info, None
    wrong = []
    for mi, mol in enumerate(system.molecules):
        for n, d in mol.nodes(data=True):
            exp = marks.get(d['tag'], {'mutation': [], 'modification': []})
            for key in ('mutation', 'modification'):
                got = list(d.get(key, []))
                if got != exp[key]:
                    wrong.append({'molecule': mi, 'residue': [d['chain'], d['resname'], d['resid'], d.get('insertion_code')],
                                  'atom': d['atomname'], 'attribute': key, 'observed': got, 'expected': exp[key]})
    if wrong:
        return ('wrong-residues-marked', {'n': len(wrong), 'examples': wrong[:4]}), info, None
    warnings = [r for r in cap.recs if r[0] >= 30]
    for si in unmatched:
        s = specs[si]
        parts = [str(v) for v in s['parts'].values()]
        hit = [w for w in warnings if s['target'] in w[2] and any(p in w[2] for p in parts)]
        if not hit:
            return ('unmatched-request-not-reported', {'spec': s, 'warnings': [w[2] for w in warnings][:4],
                                                       'n_specs': len(specs), 'n_unmatched': len(unmatched)}), info, None
    return None, info, system


def check_repair(mols, specs, system, b):
    """Part 2: real RepairGraph on the annotated system (proteins only, valid targets)."""
    from vermouth.processors.repair_graph import RepairGraph
    ff = system.force_field
    marks, _ = expected_targets(mols, specs)
    b.hits += 1
    try:
        util.shared(RepairGraph, include_graph=False).run_system(system)
    except Exception as e:
        import traceback
        return ('repair/exception/%s' % type(e).__name__, {'error': repr(e), 'trace': traceback.format_exc()[-600:]})
    for mi, mol in enumerate(system.molecules):
        by_res = {}
        for n, d in mol.nodes(data=True):
            by_res.setdefault((d.get('chain'), d.get('resid'), d.get('insertion_code')), []).append(d)
        # residues that no request names carry no request marks after repair either (marks must not travel through the
        # force field's reference blocks, which all residues of a type share)
        named = {(rchain(mols[mi], mols[mi]['res'][ri]), mols[mi]['res'][ri]['resid'], mols[mi]['res'][ri]['icode'])
                 for (mmi, ri) in marks if mmi == mi}
        for key_, atoms_ in by_res.items():
            if key_ in named:
                continue
            leaked = sorted({k_ for d in atoms_ for k_ in ('mutation', 'modification') if d.get(k_)})
            if leaked:
                return ('repair/marks-on-unnamed-residue', {'residue': list(key_), 'resname': atoms_[0].get('resname'), 'marks': leaked,
                                                            'values': [repr(atoms_[0].get(k_)) for k_ in leaked]})
        for (mmi, ri), mk in marks.items():
            if mmi != mi:
                continue
            r = mols[mi]['res'][ri]
            atoms = by_res.get((rchain(mols[mi], r), r['resid'], r['icode']), [])
            target = mk['mutation'][0] if mk['mutation'] else r['resname']
            names = {d['atomname'] for d in atoms if d.get('atomname') is not None}
            allnames = [d['atomname'] for d in atoms if d.get('atomname') is not None]
            if len(allnames) != len(names):
                return ('repair/atom-names-not-unique', {'residue': [rchain(mols[mi], r), r['resname'], r['resid']],
                                                         'repeated': sorted(x for x in names if allnames.count(x) > 1),
                                                         'modifications': mk['modification'], 'mutation': mk['mutation']})
            want = set(ff.blocks[target].nodes)
            for mod in mk['modification']:
                if mod != 'none':
                    want |= {dd['atomname'] for _, dd in ff.modifications[mod].nodes(data=True) if dd.get('PTM_atom')}
            resnames = {d.get('resname') for d in atoms}
            if resnames != {target}:
                return ('repair/residue-name-split', {'residue': [mols[mi]['chain'], r['resname'], r['resid']], 'target': target,
                                                      'resnames_after': sorted(map(str, resnames)), 'modifications': mk['modification'],
                                                      'atoms': sorted((d['atomname'], d['resname']) for d in atoms)[:12]})
            if names != want:
                return ('repair/atom-set', {'residue': [mols[mi]['chain'], r['resname'], r['resid']], 'target': target,
                                            'modifications': mk['modification'], 'surplus': sorted(names - want), 'missing': sorted(want - names)})
    return None


def snapshot_marks(system):
    return [{n: {k: list(d.get(k, [])) if k in d else None for k in ('mutation', 'modification')} for n, d in mol.nodes(data=True)}
            for mol in system.molecules]


def check_second_round(system, rnd, b, make_copies):
    """A later request on a system that already carries marks: (a) on copies of annotated molecules (copies share the mark
    lists of their source), (b) on a repaired system (RepairGraph hands one list to several atoms).  Every atom of a residue
    the new request names gains the mark exactly once, every other atom keeps exactly what it had."""
    from vermouth.processors.annotate_mut_mod import AnnotateMutMod
    if make_copies:
        for mol in list(system.molecules):
            cp = mol.copy()
            for n in cp.nodes:
                cp.nodes[n]['chain'] = 'Q'
            system.add_molecule(cp)
    residues = []
    for mi, mol in enumerate(system.molecules):
        for n, d in mol.nodes(data=True):
            key = (mi, d.get('chain'), d.get('resname'), d.get('resid'))
            if d.get('resname') in PROT and key not in residues and d.get('chain'):
                residues.append(key)
    if make_copies:
        residues = [r for r in residues if r[1] == 'Q']
    if not residues:
        return None
    before = snapshot_marks(system)
    chosen = rnd.sample(residues, min(len(residues), rnd.randint(1, 2)))
    requests = []
    for mi, chain, resname, resid in chosen:
        parts = {'chain': chain, 'resname': resname, 'resid': resid}
        if rnd.random() < 0.4:
            del parts['resid']
        requests.append((parts, rnd.choice(['N-ter', 'C-ter', 'COOH-ter'])))
    b.hits += 1
    try:
        AnnotateMutMod(modifications=[(fmt_spec(p_), t) for p_, t in requests], mutations=[]).run_system(system)
    except Exception as e:
        import traceback
        return ('second-round/exception/%s' % type(e).__name__, {'error': repr(e), 'trace': traceback.format_exc()[-600:]})
    for mi, mol in enumerate(system.molecules):
        for n, d in mol.nodes(data=True):
            gained = [t for p_, t in requests
                      if all({'chain': d.get('chain'), 'resname': d.get('resname'), 'resid': d.get('resid')}[k] == v for k, v in p_.items())]
            old = before[mi][n]
            for key in ('mutation', 'modification'):
                want = list(old[key] or [])
                if key == 'modification':
                    want = want + gained
                got = list(d.get(key, []))
                if got != want:
                    return ('second-round/wrong-residues-marked',
                            {'history': 'copies of annotated molecules' if make_copies else 'annotate, repair, annotate',
                             'molecule': mi, 'residue': [d.get('chain'), d.get('resname'), d.get('resid')], 'atom': d.get('atomname'),
                             'attribute': key, 'before': old[key], 'requests': [[fmt_spec(p_), t] for p_, t in requests],
                             'observed': got, 'expected': want})
    return None


def repairable(mols, specs, marks):
    ff = atomistic.native_ff('charmm')
    if any(m['kind'] != 'protein' for m in mols):
        return False
    for (mi, ri), mk in marks.items():
        if len(set(mk['mutation'])) > 1:
            return False
        if mk['mutation'] and mols[mi]['res'][ri]['resname'] in ('LYS', 'PHE'):
            return False    # the largest-common-subgraph search of RepairGraph needs minutes for these (not our subject)
        target = mk['mutation'][0] if mk['mutation'] else mols[mi]['res'][ri]['resname']
        for mod in mk['modification']:
            if mod == 'none':
                continue
            m = ff.modifications[mod]
            anchors = {d['atomname'] for _, d in m.nodes(data=True) if not d.get('PTM_atom')}
            if not anchors <= set(ff.blocks[target].nodes):
                return False
        # the same modification asked for twice (a general request and one naming the residue) is one modification
        mods = [x for x in mk['modification'] if x != 'none']
        # N-ter + NH2-ter etc. on the same residue overlap
        if len({x for x in mods if x in ('N-ter', 'NH2-ter')}) > 1 or len({x for x in mods if x in ('C-ter', 'COOH-ter')}) > 1:
            return False
    return True


# ------------------------------------------------------------------ requests given on the command line
def check_cli_requests(b, seed):
    """martinize2 run twice on villin: with one -modify request (and one that matches nothing), and with the same requests plus
    -nt (neutral termini, which adds its own terminal requests).  The residue named by the request must come out modified in both
    runs (same particle types and charges as each other), and the request that matches nothing must be reported in both."""
    import subprocess
    import sys
    import tempfile
    import shutil
    from ..oracles import itpread
    pdb = util.test_data_path('integration_tests/tier-1/villin/aa.pdb')
    target, mod = [('A-ASP44', 'ASP-HD2'), ('A-GLU45', 'GLU-HE1'), ('A-ASP46', 'ASP-HD2'), ('A-GLU72', 'GLU-HE2')][seed % 4]
    resid = int(target[5:])
    work = tempfile.mkdtemp(prefix='c19cli-')
    outs = {}
    try:
        for label, extra in (('plain', []), ('with-nt', ['-nt'])):
            d = os.path.join(work, label)
            os.makedirs(d)
            cmd = [sys.executable, os.path.join(util.REPO, 'bin', 'martinize2'), '-f', pdb, '-x', 'cg.pdb', '-o', 'topol.top', '-ff', 'martini3001',
                   '-maxwarn', '100', '-modify', '%s:%s' % (target, mod), '-modify', 'A-ASP999:ASP-HD2'] + extra
            r = subprocess.run(cmd, cwd=d, env=dict(os.environ, PYTHONPATH=util.REPO), capture_output=True, text=True, timeout=600)
            b.hits += 1
            if r.returncode != 0:
                return ('cli/run-failed', {'run': label, 'stderr': r.stderr[-600:]})
            with open(os.path.join(d, 'molecule_0.itp')) as f:
                mt = itpread.parse(f.read())['moleculetypes'][0]
            rows = [itpread.atom_row(x) for x in mt['atoms']]
            outs[label] = {'beads': [(x['atom'], x['type'], x['charge']) for x in rows if x['resnr'] == str(resid - 40)],
                           'reported': any('ASP999' in l and 'not found' in l for l in r.stderr.split('\n'))}
        if not outs['plain']['reported'] or not outs['with-nt']['reported']:
            return ('cli/unmatched-request-not-reported', {'request': 'A-ASP999:ASP-HD2', 'reported': {k: v['reported'] for k, v in outs.items()}})
        if outs['plain']['beads'] != outs['with-nt']['beads'] or not outs['plain']['beads']:
            return ('cli/request-lost-next-to-other-options', {'request': '%s:%s' % (target, mod), 'particles_with_the_request_alone': outs['plain']['beads'],
                                                              'particles_with_-nt_as_well': outs['with-nt']['beads']})
        # the modification has an effect at all: the side chain particle differs from the unmodified run's charged one
        if all(c in ('-1', '-1.0') for _, _, c in outs['plain']['beads'][1:2]):
            return ('cli/request-without-effect', {'request': '%s:%s' % (target, mod), 'particles': outs['plain']['beads']})
        return None
    finally:
        shutil.rmtree(work, ignore_errors=True)


def cases(tier, seed):
    nb, per = (32, 60) if tier == 'quick' else (128, 600)
    out = [{'seed': seed, 'batch': b, 'n': per} for b in range(nb)]
    # requests given on the command line, next to an option that adds requests of its own (2 pipeline runs each)
    out += [{'seed': seed, 'batch': 10000 + i, 'n': 0, 'cli': seed + i} for i in range(1 if tier == 'quick' else 4)]
    return out


def run_case(params):
    rnd = harness.rng('C19', params['seed'], params['batch'])
    b = harness.Batch()
    if 'cli' in params:
        b.total += 1
        p = check_cli_requests(b, params['cli'])
        if p:
            b.violation(p[0], 'request given on the command line does not reach the residue it names (%s)' % p[0], {'detail': p[1]})
        else:
            b.feat('cli_request_pairs')
            b.nontrivial(['cli', params['cli']], {'cli_pair': params['cli']})
        return b.result()
    for j in range(params['n']):
        b.total += 1
        mols = gen_system(rnd)
        specs = gen_specs(rnd, mols)
        desc = {'molecules': [[m['kind'], m['chain'], [[r['resname'], r['resid'], r['icode']] for r in m['res']], m['cross']] for m in mols],
                'specifications': [[s['kind'], s['text'], s['target']] for s in specs]}
        p, info, system = check_annotation(mols, specs, b)
        if p:
            key = p[0]
            b.violation(key, 'mutation/modification request handled wrongly (%s)' % key, {'subcase': j, 'detail': p[1], 'case': desc})
            continue
        b.feat({'specs': len(specs), 'unmatched_specs': info['unmatched'], 'marked_residues': info['marked_residues'],
                'unknown_target_cases': int(info['unknown_target']),
                'nter_cter_specs': sum(1 for s in specs if s['parts'].get('resname') in ('nter', 'cter')),
                'digit_names': sum(1 for s in specs if s['text'].count('#'))})
        if len(mols) >= 2 and len(specs) >= 2 and info['unmatched'] and info['marked_residues']:
            b.nontrivial(desc, desc)
        if len(mols) >= 2 and j % 3 == 0:
            # the processor object has seen the whole system before; it is then run on a system that lacks the last molecule:
            # requests only that molecule satisfied match nothing in the system at hand and must be reported for it
            b.total += 1
            p4, info4, _ = check_annotation(mols[:-1], specs, b, earlier=mols)
            if p4:
                b.violation('reused-processor/' + p4[0], 'the same processor run on a second system (%s)' % p4[0],
                            {'subcase': j, 'detail': p4[1], 'case': desc, 'second_system': 'the molecules but the last'})
                continue
            b.feat({'reused_processor_runs': 1, 'reused_processor_unmatched': info4['unmatched'] - info['unmatched']})
        if system is not None:
            marks, _ = expected_targets(mols, specs)
            copies = rnd.random() < 0.3
            if copies and marks:
                p3 = check_second_round(system, rnd, b, True)
                b.feat('second_round_on_copies')
                if p3:
                    b.violation(p3[0], 'a later request on an already annotated system (%s)' % p3[0], {'subcase': j, 'detail': p3[1], 'case': desc})
                continue
            if marks and repairable(mols, specs, marks):
                try:
                    with harness.sub_alarm(20):
                        p2 = check_repair(mols, specs, system, b)
                except harness.CaseTimeout:
                    b.inconclusive('repair-watchdog')
                    b.total += 1
                    continue
                b.feat('repair_cases')
                if p2:
                    b.violation(p2[0], 'repair after a mutation/modification request (%s)' % p2[0], {'subcase': j, 'detail': p2[1], 'case': desc})
                elif rnd.random() < 0.5:
                    p3 = check_second_round(system, rnd, b, False)
                    b.feat('second_round_after_repair')
                    if p3:
                        b.violation(p3[0], 'a later request on an already annotated system (%s)' % p3[0], {'subcase': j, 'detail': p3[1], 'case': desc})
    return b.result()
