"""Shared seeded builder of atomistic molecules from the shipped force-field blocks (charmm / amber / gromos).

Only *builds inputs*; no oracle logic lives here. Ground truth about what was built is returned next to the molecule.
"""
import copy

import networkx as nx
import numpy as np

_FF = {}

AMINO = ['ALA', 'GLY', 'SER', 'LYS', 'GLU', 'ASP', 'PHE', 'CYS', 'THR', 'VAL', 'ASN', 'ARG', 'LEU', 'ILE', 'MET', 'PRO',
         'GLN', 'TYR', 'TRP', 'HIS']


def native_ff(name):
    """Fresh deep copy per process (cached); blocks get element attributes the way the pipeline adds them."""
    if name not in _FF:
        from vermouth.forcefield import get_native_force_field
        from vermouth.graph_utils import add_element_attr
        ff = copy.deepcopy(get_native_force_field(name))
        for b in ff.blocks.values():
            try:
                add_element_attr(b)
            except ValueError:
                pass
        _FF[name] = ff
    return _FF[name]


def aa_names(ff):
    return [a for a in AMINO if a in ff.blocks and 'N' in ff.blocks[a] and 'C' in ff.blocks[a]]


def build_peptide(ff, seq, rnd=None, mods=(), scramble_ptm_names=False, junk=0, resid_start=1, chain='A',
                  coords=False, key_start=0):
    """Peptide from blocks with peptide bonds C(i)-N(i+1).

    mods: [(residue index, modification name)] - the modification's PTM atoms are added and bonded as in the
    modification graph (anchors identified by atom name inside that residue).
    Returns (Molecule, truth) with truth = {'key': {(ri, atomname): node}, 'mods': [(name, ri, {mod node: mol node})],
    'junk': [nodes]}.
    """
    from vermouth.molecule import Molecule
    mol = Molecule(force_field=ff)
    key = {}
    k = key_start
    for ri, rn in enumerate(seq):
        b = ff.blocks[rn]
        for an in b.nodes:
            key[(ri, an)] = k
            attrs = dict(atomname=an, element=b.nodes[an].get('element', an[0]), resname=rn, resid=resid_start + ri,
                         chain=chain, atomid=k + 1)
            if coords:
                attrs['position'] = np.array([rnd.uniform(0, 3), rnd.uniform(0, 3), rnd.uniform(0, 3)])
            mol.add_node(k, **attrs)
            k += 1
        for u, v in b.edges:
            mol.add_edge(key[(ri, u)], key[(ri, v)])
        if ri and (ri - 1, 'C') in key and (ri, 'N') in key:
            mol.add_edge(key[(ri - 1, 'C')], key[(ri, 'N')])
    truth_mods = []
    for ri, mname in mods:
        m = ff.modifications[mname]
        local = {}
        ok = True
        for n, d in m.nodes(data=True):
            if not d.get('PTM_atom'):
                if (ri, d['atomname']) not in key:
                    ok = False
        if not ok:
            continue
        for n, d in m.nodes(data=True):
            if d.get('PTM_atom'):
                nm = d['atomname'] if not scramble_ptm_names else '%sQ%d' % (d['element'], k)
                mol.add_node(k, atomname=nm, element=d['element'], resname=seq[ri], resid=resid_start + ri, chain=chain,
                             atomid=k + 1)
                local[n] = k
                k += 1
            else:
                local[n] = key[(ri, d['atomname'])]
        for u, v in m.edges:
            mol.add_edge(local[u], local[v])
        truth_mods.append((mname, ri, local))
    junk_nodes = []
    for j in range(junk):
        ri = rnd.randrange(len(seq))
        anchor_name = rnd.choice([a for (r, a) in key if r == ri and not a.startswith('H')])
        el = rnd.choice(['P', 'S', 'O', 'C'])
        mol.add_node(k, atomname='X%s%d' % (el, j), element=el, resname=seq[ri], resid=resid_start + ri, chain=chain, atomid=k + 1)
        mol.add_edge(k, key[(ri, anchor_name)])
        junk_nodes.append(k)
        k += 1
    return mol, {'key': key, 'mods': truth_mods, 'junk': junk_nodes}
